/-
C19 — abstract interpreter of the getter call graph of `FullGrid` / `PositionGrid` over *sizes*.

What is modelled (molgri/space/rotobj.py, voronoi.py, fullgrid.py, translations.py, naming.py):

* the decision table of `GridNameParser` *after* the token scan (`resolveName`);
* the two factories, `gen_grid` with its shape assertions and the size threshold `N >= 4` that selects the exact
  (`RotobjVoronoi`), half-sphere (`HalfRotobjVoronoi`) or estimated (`MikroVoronoi`) cell model (rotobj.py:97-104);
* Python's method resolution on the three cell classes (`mro`, `defines`, `resolve`), the attribute data a cell object
  actually carries (`hasRegionData`: `AbstractVoronoi.__init__` ran) and the bodies of the cell methods as far as they
  call each other, read attributes and index (`cellCall`);
* `get_increments`, `get_between_radii` with their index accesses and the `assert np.all(increment_grid > 0)`,
  on the actual radii (exact rationals);
* `_t_and_o_2_positions`, numpy broadcasting of 1-D operands, `scipy.sparse.diags` with one diagonal (length rule,
  truncation of an over-long diagonal, broadcasting of a length-1 diagonal), `bmat` of a block diagonal, `A + B`;
* every `FullGrid` getter of the property and everything it calls in both position modes, as functions to
  `Except Err Shape` that follow the code line by line and keep every list length / array shape.

External library calls are inputs (`Ext`): whether qhull (`scipy.spatial.Voronoi`) produced a diagram for the extended
Cartesian point set, which of its cells are closed, and for which of those `ConvexHull` raises.  Numerical success of `SphericalVoronoi`, `ConvexHull`,
the polytope generators returning exactly `N` rows and `q_in_upper_sphere` selecting exactly one of `±q`
(C07) are assumed; their outputs enter only through their lengths.

`Code` selects the version of the two repaired sites (F4 = commit 2c4b5eb, F5 = commit 4e931e5), so that the
pre-repair behaviour stays available as a witness.
-/
namespace Molgri.Totality

/-- Python exception classes that can leave a getter. `qhullError` is `scipy.spatial.QhullError`. -/
inductive Err where
  | valueError | attributeError | indexError | assertionError | typeError | recursionError | qhullError
  deriving DecidableEq, Repr

abbrev M := Except Err

/-- Shape of a returned array / list / sparse matrix. -/
inductive Shape where
  | vec (n : Nat)
  | mat (r c : Nat)
  deriving DecidableEq, Repr

/-- Version of the two repaired code sites. -/
structure Code where
  /-- voronoi.py:551 `MikroVoronoi._calculate_N_N_array` exists (F4 repair). -/
  mikroCalcNN : Bool
  /-- fullgrid.py:442 `if len(increments) > 0:` guards `increments[-1]` (F5 repair). -/
  singleRadiusGuard : Bool
  deriving DecidableEq, Repr

/-- /repo as it is now. -/
def current : Code := ⟨true, true⟩
/-- the pinned tree before the `fix:` commits. -/
def pinned : Code := ⟨false, false⟩

/-! ## numpy / scipy helpers on lengths -/

/-- numpy broadcasting of two 1-D operands of lengths `a`, `b`. -/
def bcast1 (a b : Nat) : M Nat :=
  if a = b then pure a else if a = 1 then pure b else if b = 1 then pure a else throw .valueError

/-- `_t_and_o_2_positions(o_property, t_property)` on lengths (rows); the tile/repeat product always has
`n_o * n_t` rows, which is what the final `assert` re-checks. -/
def t2o (lenO lenT : Nat) : M Nat :=
  let result := lenO * lenT          -- np.tile(o, n_t) * np.repeat(t, n_o)
  if result = lenO * lenT then pure result else throw .assertionError

/-- `scipy.sparse.diags(d, offsets=±off, shape=(n, n))` with a single diagonal of length `dlen`
(`(True,)` has length 1).  `length = min(n+off, n-off, n) = n-off`; negative → ValueError; the assignment
`data[k:k+length] = d[:length]` works iff `d[:length]` has `length` entries or exactly one. -/
def diagsOne (dlen off n : Nat) : M Shape :=
  if off > n then throw .valueError
  else
    let length := n - off
    let rhs := min dlen length
    if rhs = length ∨ rhs = 1 then pure (.mat n n) else throw .valueError

/-- `A + B` for sparse matrices: equal shapes or ValueError("inconsistent shapes"). -/
def sparseAdd (a b : Shape) : M Shape :=
  if a = b then pure a else throw .valueError

/-- `bmat` of a `k × k` block grid with the same block on the diagonal and `None` elsewhere. -/
def bmatDiag (k : Nat) : Shape → M Shape
  | .mat r c => pure (.mat (k * r) (k * c))
  | .vec _ => throw .valueError

/-- `coo_array(neig) * multiply` with a 1-D dense `multiply` (element-wise, broadcast along rows). -/
def sparseTimesVec (a : Shape) (l : Nat) : M Shape :=
  match a with
  | .mat r c => if l = 1 ∨ l = c then pure (.mat r c) else throw .valueError
  | .vec _ => throw .valueError

/-! ## radial grid (translations.py) on exact values -/

/-- element-wise numpy binary operation on 1-D arrays with broadcasting. -/
def npBin (f : Rat → Rat → Rat) (a b : List Rat) : M (List Rat) :=
  if a.length = b.length then pure (List.zipWith f a b)
  else match a, b with
    | [x], _ => pure (b.map (f x))
    | _, [y] => pure (a.map (fun v => f v y))
    | _, _ => throw .valueError

/-- `get_increments(my_array)`: `[a[0]] + [stop - start for start, stop in zip(a, a[1:])]`, then
`assert increment_grid[0] >= 0 and np.all(increment_grid[1:] > 0)` (the first radius may be zero since
commit cae935f; the differences must be positive). -/
def getIncrements (r : List Rat) : M (List Rat) :=
  match r with
  | [] => throw .indexError                                   -- my_array[0]
  | x :: xs =>
    let diffs := List.zipWith (fun start stop => stop - start) (x :: xs) xs
    if decide (0 ≤ x) && diffs.all (fun d => decide (0 < d)) then pure (x :: diffs) else throw .assertionError

/-- `get_between_radii(my_array)` (include_zero=False). -/
def getBetweenRadii (r : List Rat) : M (List Rat) := do
  let inc ← getIncrements r
  let inc' ←
    if inc.length > 1 then
      let t := inc.tail                                        -- increments.pop(0)
      match t.getLast? with                                    -- increments.append(increments[-1])
      | some l => pure ((t ++ [l]).map (fun v => v / 2))
      | none => throw .indexError
    else pure inc
  npBin (fun a b => a + b) r inc'                              -- my_array + increments

/-! ## grid names: decision table of `GridNameParser.__init__` after the token scan -/

inductive Alg where
  | randomS | cube3D | ico | randomQ | cube4D | fulldiv | zero3D | zero4D
  deriving DecidableEq, Repr

/-- `GRID_ALGORITHMS_3D` / `GRID_ALGORITHMS_4D`. -/
def Alg.inRole (a : Alg) (role4 : Bool) : Bool :=
  if role4 then a == .randomQ || a == .cube4D || a == .fulldiv
  else a == .randomS || a == .cube3D || a == .ico

/-- Result of `NameParser`'s scan of the name: is `"zero"` a substring, the one algorithm token, the one number. -/
structure Scan where
  zeroInName : Bool
  algo : Option Alg
  num : Option Nat
  deriving DecidableEq, Repr

/-- a bare number such as `"5"`. -/
def Scan.bare (n : Nat) : Scan := ⟨false, none, some n⟩
/-- `"<alg>_<n>"`. -/
def Scan.named (a : Alg) (n : Nat) : Scan := ⟨a == .zero3D || a == .zero4D, some a, some n⟩

/-- `GridNameParser(name, role)` → `(get_alg(), get_N())`. -/
def resolveName (role4 : Bool) (s : Scan) : M (Alg × Nat) :=
  let zero : Alg := if role4 then .zero4D else .zero3D
  let dflt : Alg := if role4 then .cube4D else .ico
  if s.zeroInName then
    match s.num with
    | none => pure (zero, 1)
    | some 1 => pure (zero, 1)
    | some _ => throw .valueError
  else
    match s.algo, s.num with
    | some a, num =>
      if a.inRole role4 then
        match num with
        | none => throw .valueError
        | some 1 => pure (zero, 1)
        | some 0 => throw .valueError
        | some n => pure (a, n)
      else throw .valueError
    | none, some 1 => pure (zero, 1)
    | none, some n => if n > 1 then pure (dflt, n) else throw .valueError
    | none, none => throw .valueError

/-! ## cell models (voronoi.py): classes, method resolution, bodies -/

/-- `AbstractVoronoi`, `RotobjVoronoi`, `HalfRotobjVoronoi`, `MikroVoronoi`. -/
inductive Cls where
  | abstractV | rotobj | half | mikro
  deriving DecidableEq, Repr

/-- Python's method resolution order. -/
def mro : Cls → List Cls
  | .abstractV => [.abstractV]
  | .rotobj => [.rotobj, .abstractV]
  | .half => [.half, .rotobj, .abstractV]
  | .mikro => [.mikro, .abstractV]

/-- `_calculate_N_N_array`, `get_voronoi_adjacency`, `get_center_distances`, `get_cell_borders`,
`get_voronoi_volumes`. -/
inductive Meth where
  | calcNN | adjacency | centerDistances | cellBorders | volumes
  deriving DecidableEq, Repr

/-- Which class body defines which method (voronoi.py as written). -/
def defines (code : Code) : Cls → Meth → Bool
  | .abstractV, _ => true
  | .rotobj, .volumes => true
  | .rotobj, _ => false
  | .half, .volumes => true
  | .half, .calcNN => true
  | .half, _ => false
  | .mikro, .calcNN => code.mikroCalcNN
  | .mikro, _ => true

/-- attribute lookup of a method on an instance of `c`: first class of the MRO that defines it. -/
def resolve (code : Code) (c : Cls) (m : Meth) : Option Cls :=
  (mro c).find? (fun k => defines code k m)

/-- keyword arguments that the callers pass on (`None` = not passed). -/
structure Kw where
  onlyUpper : Option Bool := none
  includeOpp : Option Bool := none
  deriving DecidableEq, Repr

/-- A cell-model object: its class and the attributes it carries. -/
structure Cell where
  cls : Cls
  dim : Nat
  /-- rows of the array given to the constructor (`my_array`), or `N_points` of `MikroVoronoi`. -/
  nPoints : Nat
  /-- number of rows of `my_array` in the upper hemisphere (`_get_upper_indices`). -/
  upper : Nat
  /-- `AbstractVoronoi.__init__` ran: `centers`, `vertices`, `regions`, `reduced_*` exist. -/
  hasRegionData : Bool
  deriving DecidableEq, Repr

/-- `len(self.centers)`: all points for the full sphere, the upper ones for the half sphere. -/
def Cell.nCenters (c : Cell) : Nat :=
  match c.cls with
  | .half => c.upper
  | _ => c.nPoints

/-- `self.full_voronoi` of a `HalfRotobjVoronoi`: a `RotobjVoronoi` of the same array. -/
def Cell.full (c : Cell) : Cell := { c with cls := .rotobj, hasRegionData := true }

/-- Call `cell.<m>(**kw)`.  `fuel` bounds the depth of method-to-method calls (exhausted = Python's
RecursionError, e.g. if `MikroVoronoi.get_voronoi_adjacency` were removed while `_calculate_N_N_array` calls it). -/
def cellCall (code : Code) : Nat → Cell → Meth → Kw → M Shape
  | 0, _, _, _ => throw .recursionError
  | fuel + 1, c, m, kw =>
    match resolve code c.cls m with
    | none => throw .attributeError
    | some impl =>
      match impl, m with
      -- AbstractVoronoi._calculate_N_N_array: reads self.reduced_regions, self.centers
      | .abstractV, .calcNN =>
        if c.hasRegionData then pure (.mat c.nCenters c.nCenters) else throw .attributeError
      -- AbstractVoronoi.get_voronoi_adjacency / get_center_distances / get_cell_borders:
      --   return self._calculate_N_N_array(sel_property=..., **kwargs)
      | .abstractV, .adjacency => cellCall code fuel c .calcNN kw
      | .abstractV, .centerDistances => cellCall code fuel c .calcNN kw
      | .abstractV, .cellBorders => cellCall code fuel c .calcNN kw
      -- AbstractVoronoi.get_voronoi_volumes: one hull per reduced region
      | .abstractV, .volumes =>
        if c.hasRegionData then pure (.vec c.nCenters) else throw .attributeError
      -- RotobjVoronoi.get_voronoi_volumes: 3D `calculate_areas()` (one per point), 4D the generic hull estimate
      | .rotobj, .volumes =>
        if c.dim = 3 then pure (.vec c.nPoints)
        else if c.hasRegionData then pure (.vec c.nCenters) else throw .attributeError
      -- HalfRotobjVoronoi.get_voronoi_volumes: all volumes of full_voronoi, then [all_volumes[i] for i in upper]
      | .half, .volumes => do
        let all ← cellCall code fuel c.full .volumes {}
        match all with
        | .vec l => if c.upper ≤ l then pure (.vec c.upper) else throw .indexError
        | .mat _ _ => throw .typeError
      -- HalfRotobjVoronoi._calculate_N_N_array(sel_property, only_upper=True, include_opposing_neighbours=True)
      | .half, .calcNN => do
        let adj ← cellCall code fuel c.full .calcNN {}
        if kw.onlyUpper.getD true then pure (.mat c.upper c.upper) else pure adj
      -- MikroVoronoi
      | .mikro, .volumes => pure (.vec c.nPoints)
      | .mikro, .adjacency => pure (.mat c.nPoints c.nPoints)          -- 1 - np.eye(N_points)
      | .mikro, .centerDistances => cellCall code fuel c .adjacency {}  -- return self.get_voronoi_adjacency()
      | .mikro, .cellBorders => cellCall code fuel c .adjacency {}
      | .mikro, .calcNN => cellCall code fuel c .adjacency {}
      | _, _ => throw .attributeError

/-- depth of the deepest real call chain is 3; 6 leaves room. -/
def FUEL : Nat := 6

/-! ## sphere grids (rotobj.py) -/

/-- A `SphereGridNDim` object after `gen_grid`. -/
structure SphereGrid where
  dim : Nat
  /-- `self.N` -/
  N : Nat
  /-- `len(self.grid)`: `N` rows in 3D, `2N` (double cover) in 4D -/
  rows : Nat
  cell : Cell
  deriving DecidableEq, Repr

/-- rows in the upper hemisphere: one of each `±q` pair (C07). -/
def upperCount (rows : Nat) : Nat := rows / 2

/-- `gen_grid()` after `_gen_grid()` returned `rows` rows: the assertions, then the size threshold
(rotobj.py:97-104). -/
def genGrid (dim N rows : Nat) : M SphereGrid := do
  if dim = 3 ∧ rows ≠ N then throw .assertionError
  if dim = 4 ∧ rows ≠ 2 * N then throw .assertionError
  -- self.get_N() = len(self.get_grid_as_array()): default only_upper is False in 3D, True in 4D
  let getN := if dim = 4 then upperCount rows else rows
  let cell : Cell :=
    if dim = 3 ∧ N ≥ 4 then ⟨.rotobj, 3, rows, upperCount rows, true⟩
    else if dim = 4 ∧ N ≥ 4 then ⟨.half, 4, rows, upperCount rows, true⟩
    else ⟨.mikro, dim, getN, 0, false⟩
  pure ⟨dim, N, rows, cell⟩

/-- `SphereGrid3DFactory.create(alg_name, N)`. The generators return exactly `N` rows (zero3D: one). -/
def create3D (alg : Alg) (N : Nat) : M SphereGrid :=
  match alg with
  | .randomS | .ico | .cube3D => genGrid 3 N N
  | .zero3D => genGrid 3 1 1
  | _ => throw .valueError

/-- `SphereGrid4DFactory.create(alg_name, N)`; `fulldiv` only for full subdivisions. -/
def create4D (alg : Alg) (N : Nat) : M SphereGrid :=
  match alg with
  | .randomQ | .cube4D => genGrid 4 N (2 * N)
  | .fulldiv => if N = 8 ∨ N = 40 ∨ N = 272 ∨ N = 2080 then genGrid 4 N (2 * N) else throw .valueError
  | .zero4D => genGrid 4 1 2
  | _ => throw .valueError

/-- `grid.get_N()` / `len(grid)`. -/
def SphereGrid.getN (g : SphereGrid) : Nat := if g.dim = 4 then upperCount g.rows else g.rows

/-- `grid.<m>(...)`: not an attribute of `SphereGridNDim`, so `__getattr__` forwards to `self.spherical_voronoi`. -/
def SphereGrid.fwd (code : Code) (g : SphereGrid) (m : Meth) (kw : Kw) : M Shape :=
  cellCall code FUEL g.cell m kw

/-! ## position grid (fullgrid.py:287-511) -/

/-- What the external geometry library returned for the Cartesian mode. -/
structure Ext where
  /-- `scipy.spatial.Voronoi(extended_position_grid)` returned (no QhullError). -/
  qhullOk : Bool
  /-- indices `idx` of `voronoi_cells.point_region` whose region has no `-1` vertex (closed cells), ascending. -/
  closed : List Nat
  /-- closed cells for which `ConvexHull(vertices[region])` raises QhullError (a numerically "closed" cell with a
  vertex at ~1e14 is flat for qhull; open finding F13). -/
  hullFails : List Nat
  deriving DecidableEq, Repr

structure PositionGrid where
  o : SphereGrid
  /-- `t_grid.trans_grid` (ascending, in Å) -/
  radii : List Rat
  cartesian : Bool
  /-- `len(voronoi_cells.point_region)` -/
  vorPoints : Nat
  closed : List Nat
  hullFails : List Nat
  deriving DecidableEq, Repr

/-- `PositionGrid.__init__`. -/
def mkPositionGrid (oScan : Scan) (radii : List Rat) (cartesian : Bool) (ext : Ext) : M PositionGrid := do
  let (alg, N) ← resolveName false oScan
  let o ← create3D alg N
  if cartesian then
    let increments ← getIncrements radii
    match radii.getLast?, increments.getLast? with            -- trans_grid[-1] + increments[-1]
    | some _, some _ =>
      let extRows ← t2o o.rows (radii.length + 1)             -- o grid (only_upper=False) x t_additional
      if ext.qhullOk then pure ⟨o, radii, true, extRows, ext.closed, ext.hullFails⟩ else throw .qhullError
    | _, _ => throw .indexError
  else pure ⟨o, radii, false, 0, [], []⟩

def PositionGrid.nT (pg : PositionGrid) : Nat := pg.radii.length          -- t_grid.get_N_trans()
/-- `len(position_grid)` -/
def PositionGrid.len (pg : PositionGrid) : Nat := pg.o.getN * pg.nT
/-- rows of `get_position_grid_as_array()` -/
def PositionGrid.arrayRows (pg : PositionGrid) : M Nat := t2o pg.o.rows pg.nT

inductive Sel where
  | adjacency | borderLen | centerDistances
  deriving DecidableEq, Repr

def kwPos : Kw := { onlyUpper := some false, includeOpp := some false }

/-- The `sel_property` branches of `_get_N_N_position_array` (fullgrid.py:418-452):
(length of `my_diags`, shape of `neig`, length of `multiply`). -/
def selParts (code : Code) (pg : PositionGrid) (between : List Rat) : Sel → M (Nat × Shape × Nat)
  | .adjacency => do
    let neig ← pg.o.fwd code .adjacency kwPos
    pure (1, neig, pg.nT)                                                   -- (True,), np.ones(n_t)
  | .borderLen => do
    let areas ← pg.o.fwd code .volumes {}
    let la ← (match areas with | .vec l => pure l | .mat _ _ => throw Err.typeError)
    let dlen := (between.length - 1) * la                                   -- loop over between_radii[:-1]
    let neig ← pg.o.fwd code .cellBorders {}
    let sub := 1 + (between.length - 1)                                     -- [0, *between_radii[:-1]]
    let mult ← bcast1 between.length sub
    pure (dlen, neig, mult)
  | .centerDistances => do
    let incAll ← getIncrements pg.radii
    let inc := incAll.tail                                                  -- get_increments()[1:]
    let li ←
      if code.singleRadiusGuard then
        pure (if inc.length > 0 then inc.length + 1 else inc.length)
      else
        (match inc.getLast? with                                            -- increments[-1]
         | some _ => pure (inc.length + 1)
         | none => throw Err.indexError)
    let dlen ← t2o pg.o.getN li                                             -- np.ones(len(self.o_rotations))
    let neig ← pg.o.fwd code .centerDistances kwPos
    pure (dlen, neig, pg.nT)                                                -- self.get_radii()

/-- `same_radius_neighbours` (fullgrid.py:469-486). -/
def sameRadius (nT : Nat) (neig : Shape) (mult : Nat) : M Shape :=
  if nT > 1 then do
    let blocks ← bmatDiag nT neig
    -- for ind_n_t in range(n_t): ... *= multiply[ind_n_t]
    if mult < nT then throw .indexError
    pure blocks
  else sparseTimesVec neig mult

/-- The body of `_get_N_N_position_array` below the two Cartesian shortcuts (fullgrid.py:406-488). -/
def positionNNSph (code : Code) (pg : PositionGrid) (sel : Sel) : M Shape := do
  let nPoints ← pg.arrayRows
  let nO := pg.o.getN
  let between ← getBetweenRadii pg.radii
  let parts ← selParts code pg between sel
  let ray ← diagsOne parts.1 nO nPoints                    -- diags(my_diags, offsets=n_o, ...)
  let ray2 ← diagsOne parts.1 nO nPoints                   -- += diags(my_diags, offsets=-n_o, ...)
  let sameRay ← sparseAdd ray ray2
  let sameRad ← sameRadius pg.nT parts.2.1 parts.2.2
  sparseAdd sameRay sameRad

/-- `get_cartesian_distances`: adjacency pattern, `points[row]`, `points[col]`. -/
def cartesianDistances (code : Code) (pg : PositionGrid) : M Shape := do
  let adj ← positionNNSph code pg .adjacency          -- self.get_adjacency_of_position_grid()
  let points ← pg.arrayRows
  match adj with
  | .mat r c => if r > points ∨ c > points then throw .indexError else pure (.mat r c)
  | .vec _ => throw .typeError

/-- `get_cartesian_surfaces`: adjacency pattern, `point_region[row]`, `point_region[col]`. -/
def cartesianSurfaces (code : Code) (pg : PositionGrid) : M Shape := do
  let adj ← positionNNSph code pg .adjacency
  match adj with
  | .mat r c => if r > pg.vorPoints ∨ c > pg.vorPoints then throw .indexError else pure (.mat r c)
  | .vec _ => throw .typeError

/-- `_get_N_N_position_array(sel_property)`. -/
def positionNN (code : Code) (pg : PositionGrid) (sel : Sel) : M Shape :=
  if pg.cartesian ∧ sel = .borderLen then cartesianSurfaces code pg
  else if pg.cartesian ∧ sel = .centerDistances then cartesianDistances code pg
  else positionNNSph code pg sel

/-- the loop of `get_cartesian_volumes` over the closed cells, in index order:
`new_volumes[idx] = ConvexHull(vertices[region]).volume` with `new_volumes` of length `n`. -/
def volLoop (n : Nat) (hullFails : List Nat) : List Nat → M Unit
  | [] => pure ()
  | idx :: rest =>
    if hullFails.contains idx then throw .qhullError          -- ConvexHull(...) raised
    else if n ≤ idx then throw .indexError                    -- new_volumes[idx] = ...
    else volLoop n hullFails rest

/-- `get_all_position_volumes()` → its length. -/
def positionVolumes (code : Code) (pg : PositionGrid) : M Nat := do
  if pg.cartesian then
    -- new_volumes = np.zeros(len(position array)); new_volumes[idx] = ... for every closed cell idx
    let n ← pg.arrayRows
    volLoop n pg.hullFails pg.closed
    pure n
  else
    let above ← getBetweenRadii pg.radii
    let below := 1 + (above.length - 1)                  -- np.concatenate(([0], radius_above[:-1]))
    let area ← pg.o.fwd code .volumes {}
    match area with
    | .vec la =>
      let a ← t2o la above.length
      let b ← t2o la below
      bcast1 a b
    | .mat _ _ => throw .typeError

/-! ## full grid (fullgrid.py:58-282) -/

structure FullGrid where
  b : SphereGrid
  pos : PositionGrid
  deriving DecidableEq, Repr

/-- the arguments of `FullGrid(b_grid_name, o_grid_name, t_grid_name, position_grid_cartesian=…)` after the
name scan and the radial parser. -/
structure Spec where
  b : Scan
  o : Scan
  radii : List Rat
  cartesian : Bool
  deriving DecidableEq, Repr

/-- `FullGrid.__init__`. -/
def mkFullGrid (s : Spec) (ext : Ext) : M FullGrid := do
  let (alg, N) ← resolveName true s.b
  let b ← create4D alg N
  let pos ← mkPositionGrid s.o s.radii s.cartesian ext
  pure ⟨b, pos⟩

/-- `len(full_grid)` -/
def FullGrid.len (fg : FullGrid) : Nat := fg.b.getN * fg.pos.len

/-- `get_full_grid_as_array()`. -/
def getFullGridAsArray (fg : FullGrid) : M Shape := do
  let total := fg.len                                     -- np.full((len(self), 7), nan)
  let posRows ← fg.pos.arrayRows
  let quatRows := upperCount fg.b.rows                    -- b_rotations.get_grid_as_array(only_upper=True)
  -- the double loop writes result[0 .. posRows*quatRows - 1]
  if posRows * quatRows > total then throw .indexError
  pure (.mat total 7)

/-- `get_total_volumes()` (a list). -/
def getTotalVolumes (code : Code) (fg : FullGrid) : M Shape := do
  let pv ← positionVolumes code fg.pos
  let ov ← cellCall code FUEL fg.b.cell .volumes {}      -- b_rotations.get_spherical_voronoi().get_voronoi_volumes()
  match ov with
  | .vec lo => pure (.vec (pv * lo))
  | .mat _ _ => throw .typeError

def selMeth : Sel → Meth
  | .adjacency => .adjacency
  | .borderLen => .cellBorders
  | .centerDistances => .centerDistances

/-- `orientation_adjacency` of `_get_N_N` (fullgrid.py:232-235). -/
def orientationNN (code : Code) (fg : FullGrid) : M Shape :=
  if fg.b.getN > 1 then cellCall code FUEL fg.b.cell .calcNN {}   -- ._calculate_N_N_array(sel_property=...)
  else pure (.mat 1 1)

/-- `same_orientation_neighbours` (fullgrid.py:237-263): entries `(n_b*i+k, n_b*j+k)` for `i, j` below the
rows/cols of the position matrix must fit `(n_total, n_total)`. -/
def sameOrientation (nB nTotal : Nat) : Shape → M Shape
  | .mat r c => if nB * r > nTotal ∨ nB * c > nTotal then throw .valueError else pure (.mat nTotal nTotal)
  | .vec _ => throw .typeError

/-- the tail of `_get_N_N` (fullgrid.py:265-282). -/
def combineNN (nPos : Nat) (oriAdj samePos : Shape) : M Shape :=
  if nPos > 1 then do
    let blocks ← bmatDiag nPos oriAdj
    sparseAdd blocks samePos
  else pure oriAdj                                             -- return coo_array(orientation_adjacency)

/-- `_get_N_N(sel_property)`. -/
def getNN (code : Code) (fg : FullGrid) (sel : Sel) : M Shape := do
  let full ← getFullGridAsArray fg
  let nTotal ← (match full with | .mat r _ => pure r | .vec _ => throw Err.typeError)
  let nO := fg.pos.o.getN
  let nB := fg.b.getN
  let nT := fg.pos.nT
  let posAdj ← positionNN code fg.pos sel
  let oriAdj ← orientationNN code fg
  let samePos ← sameOrientation nB nTotal posAdj
  combineNN (nT * nO) oriAdj samePos

/-- The five getters of the property. -/
inductive Getter where
  | array | volumes | adjacency | borders | distances
  deriving DecidableEq, Repr

def getter (code : Code) (fg : FullGrid) : Getter → M Shape
  | .array => getFullGridAsArray fg
  | .volumes => getTotalVolumes code fg
  | .adjacency => getNN code fg .adjacency
  | .borders => getNN code fg .borderLen
  | .distances => getNN code fg .centerDistances

/-- construct, then call one getter. -/
def run (code : Code) (s : Spec) (ext : Ext) (g : Getter) : M Shape := do
  let fg ← mkFullGrid s ext
  getter code fg g

/-- the shape the property demands, `n = n_t * n_o * n_b`. -/
def expected (g : Getter) (n : Nat) : Shape :=
  match g with
  | .array => .mat n 7
  | .volumes => .vec n
  | _ => .mat n n

/-- Radii accepted by the property: at least one, positive, strictly ascending. -/
def ascFrom (lo : Rat) : List Rat → Bool
  | [] => true
  | x :: xs => decide (lo < x) && ascFrom x xs

def RadiiOk (r : List Rat) : Prop := r ≠ [] ∧ ascFrom 0 r = true

instance (r : List Rat) : Decidable (RadiiOk r) := by unfold RadiiOk; infer_instance

/-- default assumption about the geometry library used by the driver when the harness does not supply the
observed values: qhull builds a 3-D diagram iff there are at least three directions; no closed cell in the
added outer shell; the hull of every closed cell can be computed. -/
def defaultExt (nO : Nat) : Ext := ⟨decide (3 ≤ nO), [], []⟩

end Molgri.Totality
