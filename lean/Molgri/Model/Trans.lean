/-
Model of `molgri.space.translations` (C16): `TranslationParser.__init__`, `_read_within_brackets`,
`get_increments`, `get_between_radii`.  Import-free, total, executable; numbers are exact rationals.

Layers (each mirrors one piece of the Python code path):

* `lex` / `parseToks` / `conv`   the fragment of `ast.literal_eval` the radial grids use: Python numeric
                                  literals (digits, fraction, exponent), unary signs, lists, tuples (with or
                                  without parentheses, trailing comma), nesting, blanks and tabs;
* `npArray`                       `np.array(value, dtype=float)` followed by `np.sort(axis=None)`'s flattening;
* `linspace`, `arange`            `np.linspace(*args, dtype=float)`, `np.arange(*args, dtype=float)`;
* `transValues`                   the substring dispatch of `__init__` (`"linspace"` first, then `"range"`);
* `finish`                        sort, non-negativity assertion, `* NM2ANGSTROM`;
* `getIncrements`, `getBetweenRadii`.

Python exceptions are `Except Err`; `Err.unsupported` is *not* a Python exception: it marks input outside
the modelled fragment of Python's grammar (names such as `True`, strings, comments, `_` in numbers, binary
operators, calls, hexadecimal literals, array-valued linspace arguments, …) on which the model says nothing.
-/
namespace Molgri.Trans

inductive Err
  | syntaxError | valueError | typeError | assertionError | indexError | zeroDivisionError
  | unsupported
  deriving DecidableEq, Repr, Inhabited

def Err.name : Err → String
  | .syntaxError => "SyntaxError"
  | .valueError => "ValueError"
  | .typeError => "TypeError"
  | .assertionError => "AssertionError"
  | .indexError => "IndexError"
  | .zeroDivisionError => "ZeroDivisionError"
  | .unsupported => "unsupported"

abbrev M := Except Err

/-! ## 1. The numeric pipeline after the dispatch (`translations.py:44-49`) -/

/-- `np.sort(grid, axis=None)` on an already flat list of exact numbers. -/
def sortAsc (xs : List Rat) : List Rat := xs.mergeSort (fun a b => decide (a ≤ b))

/-- `NM2ANGSTROM`. -/
def nm2angstrom : Rat := 10

/-- Lines 44-49: sort, `assert np.all(grid >= 0)`, `grid * NM2ANGSTROM`. -/
def finish (vals : List Rat) : M (List Rat) :=
  let s := sortAsc vals
  if s.all (fun x => decide (0 ≤ x)) then .ok (s.map (· * nm2angstrom)) else .error .assertionError

/-! ## 2. `np.linspace` and `np.arange` -/

/-- `np.linspace(start, stop, num, endpoint)`: `num < 0` raises `ValueError`; `div = num - 1` (endpoint) or `num`;
element `k` is `start + k * ((stop - start) / div)`; with `div = 0` (a single sample with endpoint) it is `start`. -/
def linspace (start stop : Rat) (num : Int) (endpoint : Bool) : M (List Rat) :=
  if num < 0 then .error .valueError else
  let n := num.toNat
  let div : Nat := if endpoint then n - 1 else n
  .ok ((List.range n).map fun (k : Nat) => if div = 0 then start else start + (k : Rat) * ((stop - start) / (div : Rat)))

/-- `⌈q⌉` through integer floor division of numerator by denominator. -/
def ceilRat (q : Rat) : Int := -((-q.num) / (q.den : Int))

/-- `np.arange(start, stop, step)`: `step = 0` raises `ZeroDivisionError`; length `max(⌈(stop-start)/step⌉, 0)`;
element `k` is `start + k * step`. -/
def arange (start stop step : Rat) : M (List Rat) :=
  if step = 0 then .error .zeroDivisionError else
  let len := (ceilRat ((stop - start) / step)).toNat
  .ok ((List.range len).map fun (k : Nat) => start + (k : Rat) * step)

/-- A Python number as `literal_eval` returns it: its exact value and whether it is an `int`. -/
structure Num where
  q : Rat
  isInt : Bool
  deriving DecidableEq, Repr

/-- `num` must satisfy `operator.index`: a Python `float` raises `TypeError`. -/
def asIndex (n : Num) : M Int := if n.isInt then .ok n.q.num else .error .typeError

/-- `np.linspace(*args, dtype=float)`; positional parameters are `start, stop, num=50, endpoint=True,
retstep=False, dtype, axis`.  A sixth positional argument collides with the keyword `dtype` (`TypeError`, raised
when the call is bound, before anything else); a truthy `retstep` makes linspace return `(array, step)`, which
`np.sort(axis=None)` cannot turn into an array (`ValueError`, after linspace's own checks). -/
def linspaceArgs (args : List Num) : M (List Rat) :=
  match args with
  | [] => .error .typeError
  | [_] => .error .typeError
  | [a, b] => linspace a.q b.q 50 true
  | [a, b, n] => do let k ← asIndex n; linspace a.q b.q k true
  | [a, b, n, e] => do let k ← asIndex n; linspace a.q b.q k (decide (e.q ≠ 0))
  | [a, b, n, e, r] => do
      let k ← asIndex n
      let g ← linspace a.q b.q k (decide (e.q ≠ 0))
      if r.q ≠ 0 then .error .valueError else .ok g
  | _ => .error .typeError

/-- `np.arange(*args, dtype=float)`: one argument is `stop`, two are `start, stop`, three add `step`; a fourth
positional argument collides with the keyword `dtype`. -/
def arangeArgs (args : List Num) : M (List Rat) :=
  match args with
  | [] => .error .typeError
  | [b] => arange 0 b.q 1
  | [a, b] => arange a.q b.q 1
  | [a, b, s] => arange a.q b.q s.q
  | _ => .error .typeError

/-! ## 3. `ast.literal_eval` on the fragment radial grids are written in -/

inductive Tok
  | num (q : Rat) (isInt : Bool)
  | lbr | rbr | lpar | rpar | comma | plus | minus
  deriving DecidableEq, Repr

/-- State of the scanner inside a numeric literal (`m` = digits read so far as a number). -/
inductive LexSt
  | idle
  | int (m nd : Nat) (lead0 : Bool)     -- `nd` digits of an integer part; `lead0`: the first digit was `0`
  | dot0                                -- a `.` with no digit before it and none after it yet
  | frac (m fd : Nat)                   -- mantissa `m`, `fd` of its digits are behind the point
  | e0 (m fd : Nat)                     -- `e`/`E` read
  | es (m fd : Nat) (neg : Bool)        -- `e` and a sign read
  | ex (m fd : Nat) (neg : Bool) (x : Nat)   -- exponent digits `x`
  deriving DecidableEq, Repr

def digitVal (c : Char) : Option Nat :=
  if '0' ≤ c ∧ c ≤ '9' then some (c.toNat - '0'.toNat) else none

/-- The number a finished literal denotes: `m · 10^(±x) / 10^fd`. -/
def sciValue (m fd : Nat) (neg : Bool) (x : Nat) : Rat :=
  if neg then mkRat m (10 ^ (fd + x)) else mkRat (m * 10 ^ x) (10 ^ fd)

/-- End of a literal (a delimiter or the end of the text was reached). -/
def flush : LexSt → M (Option Tok)
  | .idle => .ok none
  | .int m nd lead0 =>
      -- `012` is a SyntaxError ("leading zeros in decimal integer literals"), `00` is the integer 0
      if lead0 ∧ nd > 1 ∧ m ≠ 0 then .error .syntaxError else .ok (some (.num (m : Rat) true))
  | .dot0 => .error .unsupported
  | .frac m fd => .ok (some (.num (sciValue m fd false 0) false))
  | .e0 _ _ => .error .unsupported
  | .es _ _ _ => .error .unsupported
  | .ex m fd neg x => .ok (some (.num (sciValue m fd neg x) false))

def delimTok (c : Char) : Option Tok :=
  if c = '[' then some .lbr else if c = ']' then some .rbr else if c = '(' then some .lpar
  else if c = ')' then some .rpar else if c = ',' then some .comma else if c = '+' then some .plus
  else if c = '-' then some .minus else none

def isBlank (c : Char) : Bool := c = ' ' || c = '\t'

/-- The scanner: one character at a time.  Anything that is not a digit, `.`, `e`, `E`, a sign, a bracket, a comma,
a blank or a tab is outside the modelled fragment. -/
def lex : LexSt → List Char → M (List Tok)
  | st, [] => do
      let t ← flush st
      pure t.toList
  | st, c :: cs =>
    match digitVal c with
    | some d =>
      match st with
      | .idle => lex (.int d 1 (d = 0)) cs
      | .int m nd l => lex (.int (10 * m + d) (nd + 1) l) cs
      | .dot0 => lex (.frac d 1) cs
      | .frac m fd => lex (.frac (10 * m + d) (fd + 1)) cs
      | .e0 m fd => lex (.ex m fd false d) cs
      | .es m fd neg => lex (.ex m fd neg d) cs
      | .ex m fd neg x => lex (.ex m fd neg (10 * x + d)) cs
    | none =>
      if c = '.' then
        match st with
        | .idle => lex .dot0 cs
        | .int m _ _ => lex (.frac m 0) cs
        | _ => .error .unsupported
      else if c = 'e' ∨ c = 'E' then
        match st with
        | .int m _ _ => lex (.e0 m 0) cs
        | .frac m fd => lex (.e0 m fd) cs
        | _ => .error .unsupported
      else if isBlank c then do
        let t ← flush st
        let rest ← lex .idle cs
        pure (t.toList ++ rest)
      else
        match delimTok c with
        | none => .error .unsupported
        | some tk =>
          match st, tk with
          | .e0 m fd, .plus => lex (.es m fd false) cs
          | .e0 m fd, .minus => lex (.es m fd true) cs
          | _, _ => do
            let t ← flush st
            let rest ← lex .idle cs
            pure (t.toList ++ tk :: rest)

/-- The expression tree Python's parser builds (before `literal_eval` converts it). -/
inductive Ast
  | num (q : Rat) (isInt : Bool)
  | pos (a : Ast)
  | neg (a : Ast)
  | seq (items : List Ast)
  deriving Repr

/-- What `literal_eval` returns: numbers and (nested) lists/tuples of them. -/
inductive Val
  | num (n : Num)
  | seq (items : List Val)
  deriving Repr

/-- One open bracket (or the top level) of the shift-reduce parser. -/
structure Frame where
  isList : Bool            -- opened by `[` (true) or by `(` / top level (false)
  items : List Ast         -- elements read so far, last first
  sawComma : Bool          -- a comma was read at this level
  signs : List Bool        -- pending unary signs of the element being read, innermost first (true = `-`)
  expect : Bool            -- true: an element (or the closing bracket) comes next; false: a comma or a closing bracket
  deriving Repr

def Frame.new (isList : Bool) : Frame := ⟨isList, [], false, [], true⟩

def applySigns (signs : List Bool) (a : Ast) : Ast :=
  signs.foldl (fun acc s => if s then .neg acc else .pos acc) a

/-- An element is complete: wrap it in its pending signs and append it. -/
def Frame.push (f : Frame) (a : Ast) : Frame :=
  { f with items := applySigns f.signs a :: f.items, signs := [], expect := false }

/-- The value of a bracket group when it closes (also of the top level at the end of the text):
`[…]` is a list; `(x)` is `x`; `()`, `(x,)`, `(x, y)` are tuples.  A dangling sign is a syntax error. -/
def Frame.close (f : Frame) : M Ast :=
  if f.expect ∧ !f.signs.isEmpty then .error .syntaxError
  else if f.isList then .ok (.seq f.items.reverse)
  else match f.items, f.sawComma with
    | [a], false => .ok a
    | _, _ => .ok (.seq f.items.reverse)

/-- Shift-reduce parser over the tokens; `stack` holds the enclosing open brackets, innermost first. -/
def parseToks (f : Frame) (stack : List Frame) : List Tok → M Ast
  | [] =>
    match stack with
    | _ :: _ => .error .syntaxError                    -- a bracket was never closed
    | [] => if f.items.isEmpty then .error .syntaxError  -- empty text (or only signs)
            else f.close
  | t :: ts =>
    match t with
    | .num q i => if f.expect then parseToks (f.push (.num q i)) stack ts else .error .syntaxError
    | .plus => if f.expect then parseToks { f with signs := false :: f.signs } stack ts else .error .unsupported
    | .minus => if f.expect then parseToks { f with signs := true :: f.signs } stack ts else .error .unsupported
    | .lbr => if f.expect then parseToks (Frame.new true) (f :: stack) ts else .error .unsupported
    | .lpar => if f.expect then parseToks (Frame.new false) (f :: stack) ts else .error .unsupported
    | .comma => if f.expect then .error .syntaxError
                else parseToks { f with expect := true, sawComma := true } stack ts
    | .rbr =>
      match stack with
      | [] => .error .syntaxError
      | p :: ps => if !f.isList then .error .syntaxError else do
          let a ← f.close
          parseToks (p.push a) ps ts
    | .rpar =>
      match stack with
      | [] => .error .syntaxError
      | p :: ps => if f.isList then .error .syntaxError else do
          let a ← f.close
          parseToks (p.push a) ps ts

mutual
/-- `literal_eval._convert`: a sign is only allowed directly on a numeric constant. -/
def conv : Ast → M Val
  | .num q i => .ok (.num ⟨q, i⟩)
  | .pos (.num q i) => .ok (.num ⟨q, i⟩)
  | .neg (.num q i) => .ok (.num ⟨-q, i⟩)
  | .pos _ => .error .valueError
  | .neg _ => .error .valueError
  | .seq l => do let l' ← convList l; pure (.seq l')
def convList : List Ast → M (List Val)
  | [] => .ok []
  | a :: t => do let a' ← conv a; let t' ← convList t; pure (a' :: t')
end

def supportedChar (c : Char) : Bool :=
  (digitVal c).isSome || c = '.' || c = 'e' || c = 'E' || isBlank c || (delimTok c).isSome

/-- `ast.literal_eval(text)` on the modelled fragment. -/
def literalEval (s : List Char) : M Val :=
  if !s.all supportedChar then .error .unsupported else do
    let toks ← lex .idle s
    let ast ← parseToks (Frame.new false) [] toks
    conv ast

/-! ## 4. `np.array(value, dtype=float)` and flattening -/

mutual
/-- Shape numpy discovers; `none` = inhomogeneous (`ValueError`). -/
def shape : Val → Option (List Nat)
  | .num _ => some []
  | .seq l => match shapes l with
    | none => none
    | some [] => some [0]
    | some (s :: ss) => if ss.all (· == s) then some (l.length :: s) else none
def shapes : List Val → Option (List (List Nat))
  | [] => some []
  | v :: t => match shape v, shapes t with
    | some s, some ss => some (s :: ss)
    | _, _ => none
end

mutual
def flat : Val → List Rat
  | .num n => [n.q]
  | .seq l => flatList l
def flatList : List Val → List Rat
  | [] => []
  | v :: t => flat v ++ flatList t
end

/-- `np.array(v, dtype=float)` then flattened (`np.sort(axis=None)` flattens first). -/
def npArray (v : Val) : M (List Rat) :=
  match shape v with
  | none => .error .valueError
  | some _ => .ok (flat v)

/-! ## 5. The dispatch (`translations.py:35-43, 82-90`) -/

/-- `pat in s`. -/
def isInfix (pat : List Char) : List Char → Bool
  | [] => pat.isEmpty
  | c :: cs => pat.isPrefixOf (c :: cs) || isInfix pat cs

/-- `s.split(c, 1)[1]`, `none` standing for the `IndexError` when `c` does not occur. -/
def afterFirst (c : Char) : List Char → Option (List Char)
  | [] => none
  | x :: xs => if x = c then some xs else afterFirst c xs

/-- `s.split(c)[0]`. -/
def beforeFirst (c : Char) : List Char → List Char
  | [] => []
  | x :: xs => if x = c then [] else x :: beforeFirst c xs

def asNum : Val → M Num
  | .num n => .ok n
  | .seq _ => .error .unsupported     -- array-valued start/stop: outside the modelled fragment

/-- `_read_within_brackets`: the text between the first `(` and the next `)`, through `literal_eval`;
a bare number becomes a one-element tuple. -/
def readWithinBrackets (s : List Char) : M (List Num) :=
  match afterFirst '(' s with
  | none => .error .indexError
  | some rest => do
    let v ← literalEval (beforeFirst ')' rest)
    match v with
    | .num n => .ok [n]
    | .seq l => l.mapM asNum

/-- Lines 35-43: the values (in nm, unsorted) the text denotes. -/
def transValues (s : List Char) : M (List Rat) :=
  if isInfix "linspace".toList s then do
    let args ← readWithinBrackets s
    linspaceArgs args
  else if isInfix "range".toList s then do
    let args ← readWithinBrackets s
    arangeArgs args
  else do
    let v ← literalEval s
    npArray v

/-- `TranslationParser(s).get_trans_grid()`. -/
def parseTrans (s : List Char) : M (List Rat) := do
  let v ← transValues s
  finish v

/-- `grid_hash` / `get_name`: a digest of the array (md5 of its bytes in the code; a parameter here). -/
def gridId {H : Type} (md5 : List Rat → H) (s : List Char) : M H := do
  let g ← parseTrans s
  pure (md5 g)

/-! ## 6. Increments and between-radii (`translations.py:93-135`) -/

/-- `get_increments`: `[a[0]] ++ [b - a for a, b in zip(a, a[1:])]`; the assertion is
`increment_grid[0] >= 0 and np.all(increment_grid[1:] > 0)` (the first "increment" is the first radius itself, which
may be zero like in the parser; commit cae935f - before it the assertion was `np.all(increment_grid > 0)`). -/
def getIncrements : List Rat → M (List Rat)
  | [] => .error .indexError
  | r0 :: rs =>
    let inc := r0 :: List.zipWith (fun a b => b - a) (r0 :: rs) rs
    if decide (0 ≤ r0) && inc.tail.all (fun x => decide (0 < x)) then .ok inc else .error .assertionError

/-- `get_between_radii`. -/
def getBetweenRadii (r : List Rat) (includeZero : Bool) : M (List Rat) := do
  let inc ← getIncrements r
  let half : List Rat :=
    if inc.length > 1 then
      let t := inc.tail                       -- increments.pop(0)
      (t ++ [t.getLastD 0]).map (· / 2)        -- increments.append(increments[-1]); increments / 2
    else inc
  let between := List.zipWith (· + ·) r half
  pure (if includeZero then 0 :: between else between)

/-- `sum_increments_from_first_radius`. -/
def sumIncrementsFromFirst (r : List Rat) : M Rat := do
  let inc ← getIncrements r
  pure (inc.tail.foldl (· + ·) 0)

end Molgri.Trans
