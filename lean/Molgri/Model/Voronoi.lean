/-
Model of the direction-grid Voronoi logic of `molgri.space.voronoi` (C03):

* `AbstractVoronoi.get_reduced_vertices_regions`        (`voronoi.py:89-110`)
* `AbstractVoronoi._calculate_N_N_array`                (`voronoi.py:184-211`)
* `RotobjVoronoi._calculate_center_distances/_calculate_borders` for `dim = 3` (`voronoi.py:260-294`)
* `which_row_is_k`, `dist_on_sphere`, `angle_between_vectors` (`utils.py`)

Import-free, executable.  **M1**: scipy's `SphericalVoronoi` output (`points`, `vertices`, `regions`) is an
*input*; everything the code builds on top of it is modelled as written.  **M2**: what a cell *is*
(`InCell`: nearest-neighbour region, written with dot products) and the certificate predicate `CertEps`
that the theorems of `Props/C03.lean` are about; its Boolean form `certEpsB` is evaluated by the driver on
every reduced vertex the implementation uses.

The list logic is generic in the vertex type `α` and in the closeness test `close` (so that the rotation
grids in dimension 4 can reuse it); the numeric part is polymorphic in the scalar `K` (driver: `Rat`,
floats arrive as the exact dyadic rationals they are; proofs: any linearly ordered field).

Transcendental steps are *not* evaluated: where the code returns `arccos(clip(u·v)) * norm`, the model
returns the exact data `(a·b, a·a, b·b)` (`CosData`); the harness compares through the cosine.
-/
namespace Molgri.Voronoi

/-! ## generic helpers -/

/-- `Except`-valued `map` (Python: a comprehension whose body may raise; the first exception wins). -/
def mapE {ε α β : Type} (f : α → Except ε β) : List α → Except ε (List β)
  | [] => .ok []
  | a :: l =>
    match f a with
    | .error e => .error e
    | .ok b =>
      match mapE f l with
      | .error e => .error e
      | .ok bs => .ok (b :: bs)

/-- Distinct elements, first occurrences, original order:
`[v[i] for i in sorted(np.unique(v, axis=0, return_index=True)[1])]`. -/
def dedupFirst {α : Type} [DecidableEq α] : List α → List α
  | [] => []
  | a :: l => a :: (dedupFirst l).filter (fun b => decide (b ≠ a))

/-! ## `get_reduced_vertices_regions` -/

section reduce
variable {α : Type} [DecidableEq α]

/-- `which_row_is_k(new_vertices, old)[0]`: index of the first row that is `isclose` to `old`
(`none` = empty index array = `IndexError` on `[0]`). -/
def firstClose (close : α → α → Bool) (nv : List α) (old : α) : Option Nat :=
  nv.findIdx? (close old)

/-- `which_row_is_k(new_vertices, old)[0]` as an expression that may raise. -/
def lookupNew (close : α → α → Bool) (nv : List α) (old : α) : Except String Nat :=
  match firstClose close nv old with
  | some k => .ok k
  | none => .error "IndexError"

/-- The dict comprehension `old2new` (as the list of its values in key order `0, 1, …`). -/
def old2new (close : α → α → Bool) (verts : List α) : Except String (List Nat) :=
  mapE (lookupNew close (dedupFirst verts)) verts

/-- `old2new[el]` (a missing key is a `KeyError`). -/
def lookupKey (o2n : List Nat) (el : Nat) : Except String Nat :=
  match o2n[el]? with
  | some k => .ok k
  | none => .error "KeyError"

/-- `fresh_region = [old2new[el] for el in region]`. -/
def reindexRegion (o2n : List Nat) (region : List Nat) : Except String (List Nat) :=
  mapE (lookupKey o2n) region

/-- `get_reduced_vertices_regions`: `(new_vertices, new_regions)`. -/
def reduce (close : α → α → Bool) (verts : List α) (regions : List (List Nat)) :
    Except String (List α × List (List Nat)) :=
  match old2new close verts with
  | .error e => .error e
  | .ok o2n =>
    match mapE (reindexRegion o2n) regions with
    | .error e => .error e
    | .ok nr => .ok (dedupFirst verts, nr)

end reduce

/-! ## `_calculate_N_N_array` -/

/-- `itertools.combinations(range(n), 2)` in its (lexicographic) order. -/
def combos2 (n : Nat) : List (Nat × Nat) :=
  (List.range n).flatMap fun i => ((List.range n).filter (fun j => decide (i < j))).map fun j => (i, j)

/-- `set(r1).intersection(set(r2))` as a duplicate-free list (order: first occurrence in `r1`). -/
def sharedIdx (r1 r2 : List Nat) : List Nat :=
  (dedupFirst r1).filter (fun a => r2.contains a)

/-- `len(set_1.intersection(set_2)) >= self.get_dim() - 1` -/
def isAdj (dim : Nat) (regions : List (List Nat)) (i j : Nat) : Bool :=
  decide (dim - 1 ≤ (sharedIdx (regions.getD i []) (regions.getD j [])).length)

/-- The index tuples that pass the test, in loop order (`i < j`). -/
def adjPairs (dim : Nat) (regions : List (List Nat)) : List (Nat × Nat) :=
  (combos2 regions.length).filter fun p => isAdj dim regions p.1 p.2

/-- What one passing tuple appends: `rows.extend([i, j]); columns.extend([j, i]); elements.extend([v, v])`. -/
def block {β : Type} (p : Nat × Nat) (v : β) : List (Nat × Nat × β) :=
  [(p.1, p.2, v), (p.2, p.1, v)]

/-- One passing tuple: evaluate the selected property once, append it in both orientations. -/
def blockE {β : Type} (val : Nat → Nat → Except String β) (p : Nat × Nat) : Except String (List (Nat × Nat × β)) :=
  match val p.1 p.2 with
  | .error e => .error e
  | .ok v => .ok (block p v)

/-- `(rows, columns, elements)` after the loop, as a list of triples in storage order.
`val` is `_calculate_center_distances` / `_calculate_borders` / the constant `True`. -/
def nnEntries {β : Type} (dim : Nat) (regions : List (List Nat)) (val : Nat → Nat → Except String β) :
    Except String (List (Nat × Nat × β)) :=
  match mapE (blockE val) (adjPairs dim regions) with
  | .error e => .error e
  | .ok bs => .ok bs.flatten

/-- `coo_array((elements, (rows, columns)), shape=(N, N))`: scipy raises `ValueError` when an index does
not fit the shape; nothing is summed or re-ordered at construction. -/
def cooShape {β : Type} (N : Nat) (es : List (Nat × Nat × β)) : Except String (List (Nat × Nat × β)) :=
  if es.all (fun e => decide (e.1 < N) && decide (e.2.1 < N)) then .ok es else .error "ValueError"

/-- `_calculate_N_N_array(sel_property)` with `N = len(centers)`. -/
def nnArray {β : Type} (dim N : Nat) (regions : List (List Nat)) (val : Nat → Nat → Except String β) :
    Except String (List (Nat × Nat × β)) :=
  match nnEntries dim regions val with
  | .error e => .error e
  | .ok es => cooShape N es

/-- index sequence `(row[k], col[k])` of a result -/
def pattern {β : Type} (es : List (Nat × Nat × β)) : List (Nat × Nat) := es.map fun e => (e.1, e.2.1)

/-- The pattern `_calculate_N_N_array` produces (for whatever property). -/
def nnPattern (dim : Nat) (regions : List (List Nat)) : List (Nat × Nat) :=
  (adjPairs dim regions).flatMap fun p => [(p.1, p.2), (p.2, p.1)]

/-! ## vectors in dimension 3 -/

structure V3 (K : Type) where
  x : K
  y : K
  z : K
deriving DecidableEq, Repr

section vec
variable {K : Type} [Add K] [Sub K] [Mul K]

def dot (a b : V3 K) : K := a.x * b.x + a.y * b.y + a.z * b.z
def vadd (a b : V3 K) : V3 K := ⟨a.x + b.x, a.y + b.y, a.z + b.z⟩
def vsub (a b : V3 K) : V3 K := ⟨a.x - b.x, a.y - b.y, a.z - b.z⟩
def smul (t : K) (a : V3 K) : V3 K := ⟨t * a.x, t * a.y, t * a.z⟩
def cross (a b : V3 K) : V3 K := ⟨a.y * b.z - a.z * b.y, a.z * b.x - a.x * b.z, a.x * b.y - a.y * b.x⟩
def det3 (a b c : V3 K) : K := dot a (cross b c)

/-- What `dist_on_sphere(a, b) = arccos(clip(â·b̂, -1, 1)) * |a|` is computed from. -/
structure CosData (K : Type) where
  dot : K
  nsq1 : K
  nsq2 : K
deriving DecidableEq, Repr

def cosData (a b : V3 K) : CosData K := ⟨dot a b, dot a a, dot b b⟩

/-- `_calculate_center_distances(i, j)` for `dim = 3`: `dist_on_sphere(centers[i], centers[j])`. -/
def centerVal (centers : List (V3 K)) (i j : Nat) : Except String (CosData K) :=
  match centers[i]?, centers[j]? with
  | some a, some b => .ok (cosData a b)
  | _, _ => .error "IndexError"

end vec

section border
variable {K : Type} [Add K] [Sub K] [Mul K] [OfNat K 0] [DecidableEq K]

/-- exact reading of `np.linalg.matrix_rank(shared_vertices) == 2`: two rows are independent and every
three rows are dependent.  (The code calls `matrix_rank(shared_vertices, tol=1e-9)`: numpy counts singular
values above the absolute threshold `1e-9`; the two readings agree unless a singular value lies within
`1e-9` of zero - two distinct reduced vertices parallel/antipodal within ~1e-9 - which the correspondence
check excludes and counts.) -/
def rankIs2 (vs : List (V3 K)) : Bool :=
  (vs.any fun a => vs.any fun b => decide (cross a b ≠ (⟨0, 0, 0⟩ : V3 K))) &&
  (vs.all fun a => vs.all fun b => vs.all fun c => decide (det3 a b c = 0))

/-- `reduced_vertices[a]` -/
def getVertex (nv : List (V3 K)) (a : Nat) : Except String (V3 K) :=
  match nv[a]? with
  | some v => .ok v
  | none => .error "IndexError"

/-- `_calculate_borders(i, j)` for `dim = 3`.  The SVD step rotates the shared vertices into their common
plane and drops the vanishing coordinate; a rotation keeps dot products (`Props/C03.lean`,
`svd_projection_keeps_dot`), so the returned value is `dist_on_sphere` of the first two shared vertices.
Order of `list(set)`: modelled as first occurrence in region `i`; with exactly two shared vertices the value
does not depend on it (`cosData_symm`). -/
def borderVal (nv : List (V3 K)) (nr : List (List Nat)) (i j : Nat) : Except String (CosData K) :=
  let sh := sharedIdx (nr.getD i []) (nr.getD j [])
  match mapE (getVertex nv) sh with
  | .error e => .error e
  | .ok vs =>
    if rankIs2 vs then
      match vs with
      | va :: vb :: _ => .ok (cosData va vb)
      | _ => .error "AssertionError"
    else .error "AssertionError"

end border

/-- `get_voronoi_adjacency`: elements are `True`. -/
def adjacencyArray (N : Nat) (nr : List (List Nat)) : Except String (List (Nat × Nat × Bool)) :=
  nnArray 3 N nr (fun _ _ => .ok true)

section arrays
variable {K : Type} [Add K] [Sub K] [Mul K] [OfNat K 0] [DecidableEq K]

/-- `get_center_distances` -/
def distanceArray (centers : List (V3 K)) (nr : List (List Nat)) : Except String (List (Nat × Nat × CosData K)) :=
  nnArray 3 centers.length nr (centerVal centers)

/-- `get_cell_borders` -/
def borderArray (centers nv : List (V3 K)) (nr : List (List Nat)) : Except String (List (Nat × Nat × CosData K)) :=
  nnArray 3 centers.length nr (borderVal nv nr)

end arrays

/-! ## `np.isclose` rows (the `close` of `which_row_is_k`) -/

def absQ (x : Rat) : Rat := if x < 0 then -x else x

/-- `np.isclose(a, b)` with the default `rtol = 1e-5`, `atol = 1e-8`: `|a - b| <= atol + rtol * |b|`,
decided exactly. -/
def isclose (a b : Rat) : Bool :=
  decide (absQ (a - b) ≤ (1 : Rat) / 100000000 + (1 : Rat) / 100000 * absQ b)

/-- `np.all(np.isclose(k, row))` for one row: `k` is the old vertex, `row` the candidate. -/
def closeRow (k row : V3 Rat) : Bool :=
  isclose k.x row.x && isclose k.y row.y && isclose k.z row.z

/-! ## M2: cells and certificates -/

section cell
variable {K : Type} [Add K] [Mul K] [LE K]

/-- `x` lies in the nearest-neighbour region of centre `c` among the generators `P` (for generators of equal
norm, `x·q ≤ x·c` is `|x - c| ≤ |x - q|`: `Props/C03.lean`, `inCell_iff_nearest`). -/
def InCell (P : List (V3 K)) (c x : V3 K) : Prop := ∀ q ∈ P, dot x q ≤ dot x c

/-- Certificate with slack `ε`: no generator is closer to `v` than `c` by more than `ε` (in the dot product). -/
def CertEps (P : List (V3 K)) (c v : V3 K) (ε : K) : Prop := ∀ q ∈ P, dot v q ≤ dot v c + ε

variable [DecidableLE K]

/-- Boolean form, evaluated by the driver. -/
def certEpsB (P : List (V3 K)) (c v : V3 K) (ε : K) : Bool := P.all fun q => decide (dot v q ≤ dot v c + ε)

/-- Every reduced vertex listed in region `i` is certified for centre `i` (this is what the check evaluates
in exact arithmetic on scipy's output on every run). -/
def regionsCertifiedB (P nv : List (V3 K)) (nr : List (List Nat)) (ε : K) : Bool :=
  (List.range nr.length).all fun i =>
    (nr.getD i []).all fun a =>
      match P[i]?, nv[a]? with
      | some c, some v => certEpsB P c v ε
      | _, _ => false

/-- all dot products of one vertex with the generators -/
def dotRow (P : List (V3 K)) (v : V3 K) : List K := P.map (dot v)

/-- `certEpsB` on a row of precomputed dot products -/
def certRowB (ds : List K) (i : Nat) (ε : K) : Bool :=
  match ds[i]? with
  | some di =>
    let bound := di + ε
    ds.all fun d => decide (d ≤ bound)
  | none => false

/-- The same decision as `regionsCertifiedB` (`Lemmas/Voronoi.lean`, `regionsCertifiedFast_eq`), with the dot
products of every vertex computed once; this is the form the driver runs. -/
def regionsCertifiedFast (P nv : List (V3 K)) (nr : List (List Nat)) (ε : K) : Bool :=
  let table := nv.map (dotRow P)
  (List.range nr.length).all fun i =>
    (nr.getD i []).all fun a =>
      match table[a]? with
      | some ds => certRowB ds i ε
      | none => false

/-- first failing `(region, vertex)` of `regionsCertifiedB`, for the replay -/
def firstUncertified (P nv : List (V3 K)) (nr : List (List Nat)) (ε : K) : Option (Nat × Nat) :=
  ((List.range nr.length).flatMap fun i => (nr.getD i []).map fun a => (i, a)).find? fun p =>
    match P[p.1]?, nv[p.2]? with
    | some c, some v => !certEpsB P c v ε
    | _, _ => true

end cell

end Molgri.Voronoi
