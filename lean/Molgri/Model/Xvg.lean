/-
Model of `molgri.io.EnergyReader` (C20): `_get_column_names`, `load_energy`, `load_single_energy_column`,
together with the part of pandas' C tokenizer that `pd.read_csv(path, sep=r'\s+', comment='@', skiprows=13,
header=None, names=column_names, float_precision="round_trip")` exercises, and of `DataFrame.to_csv(path)` /
`pd.read_csv(path, index_col=0, float_precision="round_trip")` for the csv branch.  Import-free, executable.

A file is a list of physical lines; a line is a `List Char` without its terminator (no `\n`, `\r` inside).
A cell of a table is the *token* (the characters pandas hands to its number parser); `none` = a missing field
(pandas: NaN).  The conversion token ↦ float is pandas' (external; with `float_precision="round_trip"` it is the
correctly rounded `strtod`, and the check requires `float(token) = cell` exactly for every generated token).

States of the tokenizer are named after `pandas/_libs/src/parser/tokenizer.c`.
-/
namespace Molgri.Xvg

abbrev Line := List Char
abbrev Field := List Char

/-! ## Python string helpers -/

/-- `line.startswith(p)`. -/
def startsWith (p l : List Char) : Bool := p.isPrefixOf l

/-- `path.endswith(s)`. -/
def endsWith (s l : List Char) : Bool := s.isSuffixOf l

/-- `s.split(c)` for a one-character separator (never empty). -/
def splitOn (c : Char) : List Char → List (List Char)
  | [] => [[]]
  | x :: xs =>
    if x = c then [] :: splitOn c xs
    else match splitOn c xs with
      | [] => [[x]]
      | seg :: rest => (x :: seg) :: rest

/-- `xs[-2]`; `none` is Python's `IndexError`. -/
def penultimate {α : Type} : List α → Option α
  | [] => none
  | [_] => none
  | [a, _] => some a
  | _ :: b :: c :: r => penultimate (b :: c :: r)

/-! ## `EnergyReader._get_column_names` -/

/-- `"Time [ps]"` -/
def timeName : Field := ['T', 'i', 'm', 'e', ' ', '[', 'p', 's', ']']

/-- the decimal digit of `i` (`i < 10`), as in `f"{i}"`. -/
def digitChar (i : Nat) : Char := Char.ofNat (48 + i)

/-- `f"@ s{i} legend"` -/
def legendPrefix (i : Nat) : List Char :=
  ['@', ' ', 's', digitChar i, ' ', 'l', 'e', 'g', 'e', 'n', 'd']

/-- the inner loop `for i in range(0, 10): if line.startswith(f"@ s{i} legend"): result.append(line.split('"')[-2])`,
    over the given list of `i`. -/
def scanLegend (line : Line) : List Nat → List Field → Except String (List Field)
  | [], acc => pure acc
  | i :: is, acc =>
    if startsWith (legendPrefix i) line then
      match penultimate (splitOn '"' line) with
      | some t => scanLegend line is (acc ++ [t])
      | none => throw "IndexError"
    else scanLegend line is acc

/-- `line.startswith("@") or line.startswith("#")` -/
def isHeaderLine (line : Line) : Bool := startsWith ['@'] line || startsWith ['#'] line

/-- the outer loop `for line in f: …; if not line.startswith("@") and not line.startswith("#"): break`. -/
def scanLines : List Line → List Field → Except String (List Field)
  | [], acc => pure acc
  | l :: ls, acc =>
    match scanLegend l (List.range 10) acc with
    | .error e => .error e
    | .ok acc' => if isHeaderLine l then scanLines ls acc' else pure acc'

/-- `EnergyReader._get_column_names()` -/
def columnNames (file : List Line) : Except String (List Field) := scanLines file [timeName]

/-! ## pandas' tokenizer, skipped rows (`skiprows=13`)

A skipped row is scanned for quotes: a quote at the start of a field opens a quoted field in which line
terminators do not end the row. -/

inductive SkipSt
  | startField      -- START_FIELD_IN_SKIP_LINE
  | inField         -- IN_FIELD_IN_SKIP_LINE
  | inQuoted        -- IN_QUOTED_FIELD_IN_SKIP_LINE
  | quoteInQuoted   -- QUOTE_IN_QUOTED_FIELD_IN_SKIP_LINE
  deriving DecidableEq, Repr

/-- `delim_whitespace`: the delimiters are space and tab. -/
def isBlank (c : Char) : Bool := c = ' ' || c = '\t'

def skipStep (s : SkipSt) (c : Char) : SkipSt :=
  match s with
  | .startField => if c = '"' then .inQuoted else if isBlank c then .startField else .inField
  | .inField => if isBlank c then .startField else .inField
  | .inQuoted => if c = '"' then .quoteInQuoted else .inQuoted
  | .quoteInQuoted => if c = '"' then .inQuoted else if isBlank c then .startField else .inField

/-- START_RECORD of a row that is to be skipped: only a quote is special for the first character. -/
def skipFirst (c : Char) : SkipSt := if c = '"' then .inQuoted else .inField

/-- tokenizer state at the terminator of a physical line that starts a skipped row. -/
def skipEnd : Line → SkipSt
  | [] => .inField
  | c :: cs => cs.foldl skipStep (skipFirst c)

/-- tokenizer state at the terminator of a physical line that began inside a quoted field of a skipped row. -/
def skipCont (l : Line) : SkipSt := l.foldl skipStep .inQuoted

/-- consume physical lines until the quoted field that is open is closed and its row ends. -/
def dropQuoted : List Line → List Line
  | [] => []
  | l :: ls => if skipCont l = .inQuoted then dropQuoted ls else ls

/-- skip one row. -/
def skipRow : List Line → List Line
  | [] => []
  | l :: ls => if skipEnd l = .inQuoted then dropQuoted ls else ls

/-- `skiprows=n`. -/
def skipRows : Nat → List Line → List Line
  | 0, ls => ls
  | n + 1, ls => skipRows n (skipRow ls)

/-! ## pandas' tokenizer, data rows (`sep=r'\s+'`, `comment='@'`, `skip_blank_lines=True`) -/

inductive TokSt
  | eatWs                 -- EAT_WHITESPACE
  | inField (cur : Field) -- IN_FIELD with the characters pushed so far
  deriving Repr

/-- the rest of a row; the result is the list of fields at END_LINE.  A quoted field is outside the model. -/
def tok : TokSt → List Field → List Char → Except String (List Field)
  | .eatWs, fs, [] => pure fs
  | .eatWs, fs, c :: cs =>
    if isBlank c then tok .eatWs fs cs
    else if c = '@' then pure fs                       -- EAT_COMMENT
    else if c = '"' then throw "OutOfModel"            -- START_FIELD, quote
    else tok (.inField [c]) fs cs
  | .inField cur, fs, [] => pure (fs ++ [cur])
  | .inField cur, fs, c :: cs =>
    if isBlank c then tok .eatWs (fs ++ [cur]) cs
    else if c = '@' then pure (fs ++ [cur])            -- END_FIELD; EAT_COMMENT
    else tok (.inField (cur ++ [c])) fs cs             -- a quote inside a field is an ordinary character

/-- one physical line after the skipped rows: `none` = the line contributes no row. -/
def tokLine : Line → Except String (Option (List Field))
  | [] => pure none                                    -- START_RECORD, terminator: empty line skipped
  | c :: cs =>
    if c = '@' then pure none                          -- EAT_LINE_COMMENT
    else if isBlank c then                             -- WHITESPACE_LINE
      if cs.all isBlank then pure none
      else match tok .eatWs [] cs with
        | .ok fs => pure (some fs)
        | .error e => throw e
    else if c = '"' then throw "OutOfModel"
    else match tok (.inField [c]) [] cs with
      | .ok fs => pure (some fs)
      | .error e => throw e

/-- all rows of the remaining lines, in file order. -/
def tokRows : List Line → Except String (List (List Field))
  | [] => pure []
  | l :: ls =>
    match tokLine l with
    | .error e => .error e
    | .ok r =>
      match tokRows ls with
      | .error e => .error e
      | .ok rs => pure (match r with | none => rs | some f => f :: rs)

/-! ## the frame -/

structure Table where
  /-- column labels -/
  names : List Field
  /-- number of leading columns that pandas turns into the (implicit) index -/
  lead : Nat
  /-- rows in order; every row has `lead + names.length` cells -/
  rows : List (List (Option Field))
  deriving DecidableEq, Repr

/-- pandas: `ValueError("Duplicate names are not allowed.")` -/
def hasDup : List Field → Bool
  | [] => false
  | x :: xs => xs.contains x || hasDup xs

/-- short rows are filled with missing cells. -/
def pad (w : Nat) (r : List Field) : List (Option Field) :=
  r.map some ++ List.replicate (w - r.length) none

/-- the width pandas expects: `max(fields of the first row, len(names))`. -/
def expectedWidth (names : List Field) : List (List Field) → Nat
  | [] => names.length
  | r :: _ => max r.length names.length

/-- `pd.read_csv(path, sep=r'\s+', comment='@', skiprows=13, header=None, names=names)` -/
def readTable (names : List Field) (file : List Line) : Except String Table :=
  if hasDup names then throw "ValueError"
  else match tokRows (skipRows 13 file) with
    | .error e => .error e
    | .ok rows =>
      let w := expectedWidth names rows
      if rows.any (fun r => w < r.length) then throw "other:ParserError"
      else pure { names := names, lead := w - names.length, rows := rows.map (pad w) }

/-- the xvg branch of `EnergyReader.load_energy()` -/
def loadXvg (file : List Line) : Except String Table :=
  match columnNames file with
  | .error e => .error e
  | .ok names => readTable names file

/-- position of a label -/
def indexOf (x : Field) : List Field → Option Nat
  | [] => none
  | y :: ys => if x = y then some 0 else (indexOf x ys).map (· + 1)

/-- `table[energy_type].to_numpy()` -/
def column (t : Table) (name : Field) : Except String (List (Option Field)) :=
  match indexOf name t.names with
  | none => throw "KeyError"
  | some k => pure (t.rows.map (fun r => r.getD (t.lead + k) none))

/-! ## csv: `DataFrame.to_csv(path)` and `pd.read_csv(path, index_col=0)` -/

/-- `csv.QUOTE_MINIMAL`: a field is quoted when it contains the delimiter, the quote character or a line
    terminator character. -/
def needsQuote (f : Field) : Bool := f.any (fun c => c = ',' || c = '"' || c = '\n' || c = '\r')

/-- quotes inside a quoted field are doubled. -/
def doubleQuotes : List Char → List Char
  | [] => []
  | c :: cs => if c = '"' then '"' :: '"' :: doubleQuotes cs else c :: doubleQuotes cs

def csvField (f : Field) : List Char :=
  if needsQuote f then '"' :: (doubleQuotes f ++ ['"']) else f

def csvLine : List Field → Line
  | [] => []
  | [f] => csvField f
  | f :: g :: r => csvField f ++ ',' :: csvLine (g :: r)

/-- decimal digits of a natural number (`str(i)`), least significant digit computed first. -/
def natDigits (fuel n : Nat) (acc : List Char) : List Char :=
  match fuel with
  | 0 => acc
  | fuel + 1 => if n < 10 then digitChar n :: acc else natDigits fuel (n / 10) (digitChar (n % 10) :: acc)

def natStr (n : Nat) : List Char := natDigits (n + 1) n []

/-- the data lines: row label `i`, then the cells. -/
def csvRows : Nat → List (List Field) → List Line
  | _, [] => []
  | i, r :: rs => csvLine (natStr i :: r) :: csvRows (i + 1) rs

/-- `frame.to_csv(path)` for a frame with a `RangeIndex`, cells given as the strings pandas writes. -/
def csvWrite (names : List Field) (rows : List (List Field)) : List Line :=
  csvLine ([] :: names) :: csvRows 0 rows

inductive CsvSt
  | startField
  | inField (cur : Field)
  | inQuoted (cur : Field)        -- IN_QUOTED_FIELD
  | quoteInQuoted (cur : Field)   -- QUOTE_IN_QUOTED_FIELD
  deriving Repr

/-- one csv record on one physical line (`sep=','`, `quotechar='"'`, `doublequote=True`); a quoted field that is
    still open at the end of the line would continue on the next line and is outside the model. -/
def csvTok : CsvSt → List Field → List Char → Except String (List Field)
  | .startField, fs, [] => pure (fs ++ [[]])
  | .startField, fs, c :: cs =>
    if c = '"' then csvTok (.inQuoted []) fs cs
    else if c = ',' then csvTok .startField (fs ++ [[]]) cs
    else csvTok (.inField [c]) fs cs
  | .inField cur, fs, [] => pure (fs ++ [cur])
  | .inField cur, fs, c :: cs =>
    if c = ',' then csvTok .startField (fs ++ [cur]) cs
    else csvTok (.inField (cur ++ [c])) fs cs
  | .inQuoted _, _, [] => throw "OutOfModel"
  | .inQuoted cur, fs, c :: cs =>
    if c = '"' then csvTok (.quoteInQuoted cur) fs cs
    else csvTok (.inQuoted (cur ++ [c])) fs cs
  | .quoteInQuoted cur, fs, [] => pure (fs ++ [cur])
  | .quoteInQuoted cur, fs, c :: cs =>
    if c = '"' then csvTok (.inQuoted (cur ++ ['"'])) fs cs
    else if c = ',' then csvTok .startField (fs ++ [cur]) cs
    else csvTok (.inField (cur ++ [c])) fs cs

/-- a frame read from csv: labels, index labels, cells (all as written). -/
structure CsvTable where
  names : List Field
  index : List Field
  rows : List (List Field)
  deriving DecidableEq, Repr

/-- data records: the first field is the row label.  Ragged records are outside the model. -/
def csvData (w : Nat) : List Line → Except String (List (Field × List Field))
  | [] => pure []
  | l :: ls =>
    match csvTok .startField [] l with
    | .error e => .error e
    | .ok [] => throw "OutOfModel"
    | .ok (lab :: cells) =>
      if cells.length ≠ w then throw "OutOfModel"
      else match csvData w ls with
        | .error e => .error e
        | .ok rs => pure ((lab, cells) :: rs)

/-- `skip_blank_lines=True`: empty lines and lines of blanks are dropped, also before the header -/
def isBlankLine (l : Line) : Bool := l.all isBlank

/-- `pd.read_csv(path, index_col=0)`.  Empty or repeated labels in the header are renamed by pandas
    (`Unnamed: k`, `x.1`) and are outside the model. -/
def csvRead (file : List Line) : Except String CsvTable :=
  match file.filter (fun l => !isBlankLine l) with
  | [] => throw "other:EmptyDataError"
  | h :: ls =>
    match csvTok .startField [] h with
    | .error e => .error e
    | .ok [] => throw "OutOfModel"
    | .ok (_ :: names) =>
      if names.any (fun n => n.isEmpty) || hasDup names then throw "OutOfModel"
      else match csvData names.length ls with
        | .error e => .error e
        | .ok rs => pure { names := names, index := rs.map (·.1), rows := rs.map (·.2) }

/-! ## `EnergyReader.load_energy` dispatch on the file name -/

inductive Loaded
  | xvg (t : Table)
  | csv (t : CsvTable)
  deriving DecidableEq, Repr

def sufXvg : List Char := ['x', 'v', 'g']
def sufCsv : List Char := ['c', 's', 'v']

/-- `EnergyReader(path).load_energy()` -/
def loadEnergy (path : List Char) (file : List Line) : Except String Loaded :=
  if endsWith sufXvg path then
    match loadXvg file with
    | .error e => .error e
    | .ok t => pure (.xvg t)
  else if endsWith sufCsv path then
    match csvRead file with
    | .error e => .error e
    | .ok t => pure (.csv t)
  else throw "ValueError"

end Molgri.Xvg
