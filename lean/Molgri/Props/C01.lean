/-
C01 — the SqRA rate matrix is the SqRA formula and a reversible generator.

Property theorems about `Molgri.Sqra` (the model of `SQRA.get_rate_matrix`, `transitions.py:306-346`).
Quantifiers: every scalar field `K` (with any relation `<` used by the cap), every map `exp : K → K`
(the additive law `exp (a + b) = exp a * exp b` is a hypothesis exactly where it is used), every rounding
function `rnd`, all constants `kB NA T D`, all cell counts, all coo storages `S`, `h` (surfaces, distances
after `.tocoo()`), all volumes `V` and energies `E`.  `Molgri/Props/C01Real.lean` instantiates them at
`ℝ` with `Real.exp`.

Scope: the theorems are about exact fields.  The implementation (and the driver's `Float` instance of the same
model) computes in IEEE doubles, which are not a field: rounding is absorbed by the tolerances of the
correspondence check, and overflow is an OPEN finding (`findings/C01.json`, key
`C01:float64_overflow_at_cap_low_T`): below ≈ 42.4 K, `exp (500·β)` exceeds the largest double, the entry is
`inf`, the diagonal `-inf` and the row sum `nan`, so `sqra_row_sum_zero` has no `Float` counterpart there.
The model reproduces this behaviour (checked on every run by the correspondence on the low-temperature class).
-/
import Molgri.Lemmas.Sqra
import Mathlib.Algebra.Order.Field.Rat
import Mathlib.Tactic.NormNum.Basic

namespace Molgri.C01
open Molgri.Sqra

variable {K : Type} [Field K] [LT K] [DecidableLT K]

/-- `β = 1000 / (2·k_B·N_A·T)`, so that the exponent of the code is `β · rnd (capped difference)`. -/
def beta (kB NA T : K) : K := 1000 / (2 * kB * NA * T)

omit [LT K] [DecidableLT K] in
theorem piExponent_eq (rnd : K → K) (kB NA T d : K) :
    piExponent rnd kB NA T d = beta kB NA T * rnd d := by
  unfold piExponent beta; ring

/-- **Entry formula** ("Q_ij = D·S_ij/(h_ij·V_i)·exp((E_i−E_j)/(2RT)) exactly on that pattern, zero elsewhere
off the diagonal"; beyond the cap the capped difference enters).  Hypotheses: `S` and `h` store the same index
sequence (common pattern *in the same storage order*) without repeated positions. -/
theorem sqra_entry (exp rnd : K → K) (kB NA T D : K) (S h : Coo K) (V E : Nat → K) (i j : Nat)
    (hpat : S.idx = h.idx) (hnd : S.idx.Nodup) (hij : i ≠ j) :
    rate exp rnd kB NA T D S h V E i j =
      if (i, j) ∈ S.idx then
        D * S.dense i j / (h.dense i j * V i) * exp (beta kB NA T * rnd (capf (E i - E j)))
      else 0 := by
  unfold rate addDiag
  rw [if_neg hij, add_zero]
  unfold Coo.dense
  rw [offDiag_entries]
  have hd : h.data = h.entries.map (·.val) := rfl
  rw [hd]
  have := dense_zipWith (entryVal exp rnd kB NA T D V E) i j S.entries h.entries hpat hnd
  rw [this]
  unfold Coo.idx
  split
  · unfold entryVal
    rw [piExponent_eq, div_div]
  · rfl

/-- The one-sided cap: a pair whose energy difference is not below 500 kJ/mol gets the formula with the
difference replaced by 500. -/
theorem sqra_entry_capped (exp rnd : K → K) (kB NA T D : K) (S h : Coo K) (V E : Nat → K) (i j : Nat)
    (hpat : S.idx = h.idx) (hnd : S.idx.Nodup) (hij : i ≠ j) (hmem : (i, j) ∈ S.idx)
    (hcap : ¬ E i - E j < 500) :
    rate exp rnd kB NA T D S h V E i j =
      D * S.dense i j / (h.dense i j * V i) * exp (beta kB NA T * rnd 500) := by
  rw [sqra_entry exp rnd kB NA T D S h V E i j hpat hnd hij, if_pos hmem]
  unfold capf
  rw [if_neg hcap]

/-- **Zero row sums** ("every row sums to zero"): for every row, including rows with no neighbour and pairs
beyond the cap; needs no alignment of `S` and `h` at all, only that the stored columns lie inside the matrix. -/
theorem sqra_row_sum_zero (exp rnd : K → K) (kB NA T D : K) (S h : Coo K) (V E : Nat → K) (n i : Nat)
    (hcols : ∀ p ∈ S.idx, p.2 < n) (hi : i < n) :
    ∑ j ∈ Finset.range n, rate exp rnd kB NA T D S h V E i j = 0 := by
  unfold rate addDiag
  rw [Finset.sum_add_distrib]
  unfold Coo.rowSum Coo.dense
  rw [← rowSum_eq_sum_dense]
  · rw [Finset.sum_ite_eq]
    simp [hi]
  · intro e he
    rw [offDiag_entries] at he
    obtain ⟨a, ha, _, hc⟩ := mem_zipWith_ix (w := entryVal exp rnd kB NA T D V E) he
    rw [hc]
    exact hcols (a.row, a.col) (List.mem_map.mpr ⟨a, ha, rfl⟩)

/-- **Detailed balance, with the rounding defect made explicit.**  For symmetric values of `S` and `h` at the pair
and both energy differences below the cap,
`V_i e^{-2βE_i} Q_ij e^{β(d - rnd d)} = V_j e^{-2βE_j} Q_ji e^{β(-d - rnd(-d))}` with `d = E_i - E_j`.
(`np.round(·,14)` moves `d` by at most `5·10⁻¹⁵`; the two correction factors are `1` when `rnd` fixes `±d`.) -/
theorem sqra_detailed_balance_rnd (exp rnd : K → K) (kB NA T D : K) (S h : Coo K) (V E : Nat → K) (i j : Nat)
    (hexp : ∀ a b, exp (a + b) = exp a * exp b)
    (hpat : S.idx = h.idx) (hnd : S.idx.Nodup) (hij : i ≠ j)
    (hS : S.dense i j = S.dense j i) (hh : h.dense i j = h.dense j i)
    (hVi : V i ≠ 0) (hVj : V j ≠ 0)
    (hcap1 : E i - E j < 500) (hcap2 : E j - E i < 500) :
    V i * exp (-(2 * beta kB NA T) * E i) * rate exp rnd kB NA T D S h V E i j
        * exp (beta kB NA T * ((E i - E j) - rnd (E i - E j)))
      = V j * exp (-(2 * beta kB NA T) * E j) * rate exp rnd kB NA T D S h V E j i
        * exp (beta kB NA T * ((E j - E i) - rnd (E j - E i))) := by
  rw [sqra_entry exp rnd kB NA T D S h V E i j hpat hnd hij,
      sqra_entry exp rnd kB NA T D S h V E j i hpat hnd (Ne.symm hij)]
  have c1 : capf (E i - E j) = E i - E j := by unfold capf; rw [if_pos hcap1]
  have c2 : capf (E j - E i) = E j - E i := by unfold capf; rw [if_pos hcap2]
  rw [c1, c2]
  set β := beta kB NA T
  -- the three exponentials on each side combine to exp (-β (E_i + E_j))
  have e1 : exp (-(2 * β) * E i) * exp (β * rnd (E i - E j)) * exp (β * ((E i - E j) - rnd (E i - E j)))
      = exp (-(β * (E i + E j))) := by
    rw [← hexp, ← hexp]; congr 1; ring
  have e2 : exp (-(2 * β) * E j) * exp (β * rnd (E j - E i)) * exp (β * ((E j - E i) - rnd (E j - E i)))
      = exp (-(β * (E i + E j))) := by
    rw [← hexp, ← hexp]; congr 1; ring
  by_cases m1 : (i, j) ∈ S.idx
  · by_cases m2 : (j, i) ∈ S.idx
    · rw [if_pos m1, if_pos m2, ← hS, ← hh]
      calc V i * exp (-(2 * β) * E i) * (D * S.dense i j / (h.dense i j * V i) * exp (β * rnd (E i - E j)))
              * exp (β * ((E i - E j) - rnd (E i - E j)))
          = (V i / V i) * (D * S.dense i j / h.dense i j)
              * (exp (-(2 * β) * E i) * exp (β * rnd (E i - E j)) * exp (β * ((E i - E j) - rnd (E i - E j)))) := by
            rw [← div_div]; ring
        _ = (V j / V j) * (D * S.dense i j / h.dense i j)
              * (exp (-(2 * β) * E j) * exp (β * rnd (E j - E i)) * exp (β * ((E j - E i) - rnd (E j - E i)))) := by
            rw [e1, e2, div_self hVi, div_self hVj]
        _ = _ := by rw [← div_div (D * S.dense i j) (h.dense i j) (V j)]; ring
    · have z : S.dense i j = 0 := by
        rw [hS]; exact dense_eq_zero_of_not_mem m2
      rw [if_pos m1, if_neg m2, z]; simp
  · by_cases m2 : (j, i) ∈ S.idx
    · have z : S.dense j i = 0 := by
        rw [← hS]; exact dense_eq_zero_of_not_mem m1
      rw [if_neg m1, if_pos m2, z]; simp
    · rw [if_neg m1, if_neg m2]; simp

/-- **Detailed balance** ("V_i·exp(−E_i/RT)·Q_ij = V_j·exp(−E_j/RT)·Q_ji for every pair whose energy difference is
below the cap"): `1/(RT)` is `2β`; stated for differences that the rounding leaves unchanged. -/
theorem sqra_detailed_balance (exp rnd : K → K) (kB NA T D : K) (S h : Coo K) (V E : Nat → K) (i j : Nat)
    (hexp : ∀ a b, exp (a + b) = exp a * exp b) (hexp0 : exp 0 = 1)
    (hpat : S.idx = h.idx) (hnd : S.idx.Nodup) (hij : i ≠ j)
    (hS : S.dense i j = S.dense j i) (hh : h.dense i j = h.dense j i)
    (hVi : V i ≠ 0) (hVj : V j ≠ 0)
    (hcap1 : E i - E j < 500) (hcap2 : E j - E i < 500)
    (hr1 : rnd (E i - E j) = E i - E j) (hr2 : rnd (E j - E i) = E j - E i) :
    V i * exp (-(2 * beta kB NA T) * E i) * rate exp rnd kB NA T D S h V E i j
      = V j * exp (-(2 * beta kB NA T) * E j) * rate exp rnd kB NA T D S h V E j i := by
  have := sqra_detailed_balance_rnd exp rnd kB NA T D S h V E i j hexp hpat hnd hij hS hh hVi hVj hcap1 hcap2
  rw [hr1, hr2] at this
  simpa [hexp0] using this

/-- **Shift invariance** ("does not change when a constant is added to all energies"), all inputs. -/
theorem sqra_shift (exp rnd : K → K) (kB NA T D : K) (S h : Coo K) (V E : Nat → K) (c : K) (i j : Nat) :
    rate exp rnd kB NA T D S h V (fun k => E k + c) i j = rate exp rnd kB NA T D S h V E i j := by
  unfold rate offDiag offDiagFrom mulBoltz
  simp only [add_sub_add_right_eq_sub]

/-- **Linearity in D**: the matrix for `D` is `D` times the matrix for `D = 1`, all inputs, all entries
(diagonal included). -/
theorem sqra_linear_D (exp rnd : K → K) (kB NA T D : K) (S h : Coo K) (V E : Nat → K) (i j : Nat) :
    rate exp rnd kB NA T D S h V E i j = D * rate exp rnd kB NA T 1 S h V E i j := by
  unfold rate addDiag Coo.dense Coo.rowSum
  rw [offDiag_entries, offDiag_entries]
  have hw : ∀ (r c : Nat) (s x : K),
      entryVal exp rnd kB NA T D V E r c s x = D * entryVal exp rnd kB NA T 1 V E r c s x := by
    intro r c s x; unfold entryVal; ring
  simp only [hw]
  have h1 := condSum_zipWith_mul (fun r c => r == i && c == j) D (entryVal exp rnd kB NA T 1 V E) S.entries h.data
  have h2 := condSum_zipWith_mul (fun r _ => r == i) D (entryVal exp rnd kB NA T 1 V E) S.entries h.data
  rw [h1, h2]
  split <;> ring

/-- additive form of linearity -/
theorem sqra_add_D (exp rnd : K → K) (kB NA T D₁ D₂ : K) (S h : Coo K) (V E : Nat → K) (i j : Nat) :
    rate exp rnd kB NA T (D₁ + D₂) S h V E i j
      = rate exp rnd kB NA T D₁ S h V E i j + rate exp rnd kB NA T D₂ S h V E i j := by
  rw [sqra_linear_D exp rnd kB NA T (D₁ + D₂), sqra_linear_D exp rnd kB NA T D₁, sqra_linear_D exp rnd kB NA T D₂]
  ring

/-! ### the storage-order hypothesis `S.idx = h.idx` -/

omit [Field K] [LT K] [DecidableLT K] in
/-- `csr.tocoo()` is row-major (the order the zip sees), whatever the csr matrix is. -/
theorem csr_tocoo_rowMajor (a : Csr K) : (a.tocoo.entries.map (·.row)).Pairwise (· ≤ ·) :=
  tocoo_rowMajor a

omit [Field K] [LT K] [DecidableLT K] in
/-- Two csr inputs with identical `indptr`/`indices` are aligned (also with unsorted column indices). -/
theorem aligned_of_same_csr_structure (S h : Csr K) (hn : S.n = h.n) (hp : S.indptr = h.indptr)
    (hi : S.indices = h.indices) (hS : S.indices.length ≤ S.data.length) (hh : h.indices.length ≤ h.data.length) :
    S.tocoo.idx = h.tocoo.idx :=
  tocoo_idx_of_same_structure S h hn hp hi hS hh

omit [Field K] [LT K] [DecidableLT K] in
/-- "inputs given as csr or as row-major coo, the two storage forms the package itself produces": if both
inputs are in canonical order (row-major, columns ascending) and have a **common sparsity pattern**, then
they are aligned and free of repetitions, i.e. the hypotheses `hpat`, `hnd` of the theorems above hold. -/
theorem aligned_of_canonical (S h : Coo K) (hS : S.idx.Pairwise lexLt) (hh : h.idx.Pairwise lexLt)
    (hm : ∀ p, p ∈ S.idx ↔ p ∈ h.idx) : S.idx = h.idx ∧ S.idx.Nodup :=
  ⟨idx_unique_of_lexSorted S h hS hh hm, nodup_of_lexSorted S hS⟩

omit [Field K] [LT K] [DecidableLT K] in
/-- a canonical csr matrix (`has_canonical_format`) expands to canonical coo order -/
theorem canonical_csr_tocoo (a : Csr K) (hc : a.Canonical) : a.tocoo.idx.Pairwise lexLt :=
  tocoo_lexSorted a hc

/-- Why "same entry order" is a hypothesis (a concrete witness over `ℤ` with `exp = 1`, not a theorem about all
inputs): `h'` is the matrix `h` stored in pair order `(0,1),(1,0),(0,2),(2,0)` (the order
`AbstractVoronoi._calculate_N_N_array` produces) instead of row-major; the matrices are equal, the rate
matrices differ. -/
theorem sqra_misaligned :
    let S : Coo Int := ⟨3, [⟨0, 1, 6⟩, ⟨0, 2, 6⟩, ⟨1, 0, 6⟩, ⟨2, 0, 6⟩]⟩
    let h : Coo Int := ⟨3, [⟨0, 1, 2⟩, ⟨0, 2, 3⟩, ⟨1, 0, 2⟩, ⟨2, 0, 3⟩]⟩
    let h' : Coo Int := ⟨3, [⟨0, 1, 2⟩, ⟨1, 0, 2⟩, ⟨0, 2, 3⟩, ⟨2, 0, 3⟩]⟩
    (∀ i < 3, ∀ j < 3, h'.dense i j = h.dense i j) ∧
    rate (fun _ => 1) id 1 1 1 1 S h (fun _ => 1) (fun _ => 0) 0 2 = 2 ∧
    rate (fun _ => 1) id 1 1 1 1 S h' (fun _ => 1) (fun _ => 0) 0 2 = 3 := by
  decide +kernel

/-! ### the function with its exceptions -/

/-- Under exactly the guard under which the code does not raise (equal lengths of `energies`/`volumes`, equal
numbers of stored entries, indices inside, shape = number of cells ≠ 1), `get_rate_matrix` returns the dense
table of `rate` for the two inputs after `.tocoo()`, for both storage forms of both inputs. -/
theorem getRateMatrix_ok (exp rnd : K → K) (kB NA : K) (E V : List K) (dist surf : Sp K) (D T : K)
    (hlen : E.length = V.length)
    (hnnz : dist.tocoo.data.length = surf.tocoo.entries.length)
    (hrow : ∀ e ∈ surf.tocoo.entries, e.row < V.length) (hcol : ∀ e ∈ surf.tocoo.entries, e.col < V.length)
    (hn : surf.n = V.length) (hn1 : surf.n ≠ 1) :
    getRateMatrix exp rnd kB NA E V dist surf D T
      = .ok ((List.range surf.n).map fun i => (List.range surf.n).map fun j =>
          rate exp rnd kB NA T D surf.tocoo dist.tocoo (fun k => V.getD k 0) (fun k => E.getD k 0) i j) := by
  unfold getRateMatrix
  rw [if_neg (by simpa using hlen)]
  have hl : (surf.smul D).tocoo.entries.length = surf.tocoo.entries.length := by
    rw [tocoo_smul]; simp [Coo.smul]
  have hb : broadcastData (surf.smul D).tocoo.entries.length dist.tocoo.data = some dist.tocoo.data := by
    unfold broadcastData; rw [hl, if_pos hnnz]
  show (match broadcastData (surf.smul D).tocoo.entries.length dist.tocoo.data with
    | none => _ | some hd => _) = _
  rw [hb]
  have hsm : ∀ e ∈ (surf.smul D).tocoo.entries, e.row < V.length ∧ e.col < V.length := by
    intro e he
    rw [tocoo_smul] at he
    simp only [Coo.smul, List.mem_map] at he
    obtain ⟨a, ha, rfl⟩ := he
    exact ⟨hrow a ha, hcol a ha⟩
  have a1 : (surf.smul D).tocoo.entries.any (fun e => decide (V.length ≤ e.row)) = false := by
    rw [List.any_eq_false]; intro e he; have := (hsm e he).1; simp; omega
  have a2 : (surf.smul D).tocoo.entries.any (fun e => decide (E.length ≤ e.col)) = false := by
    rw [List.any_eq_false]; intro e he; have := (hsm e he).2; simp; omega
  simp only [a1, a2, Bool.false_eq_true, if_false]
  rw [if_neg (by intro hc; rcases hc with hc | hc; exact hc hn; exact hn1 hc)]
  unfold rate offDiag
  rw [tocoo_smul]

/-- `assert len(self.energies) == len(self.volumes)` -/
theorem getRateMatrix_assert (exp rnd : K → K) (kB NA : K) (E V : List K) (dist surf : Sp K) (D T : K)
    (hlen : E.length ≠ V.length) :
    getRateMatrix exp rnd kB NA E V dist surf D T = .error "AssertionError" := by
  unfold getRateMatrix; rw [if_pos hlen]

/-- different numbers of stored entries (and no numpy broadcast of a single distance): `ValueError` -/
theorem getRateMatrix_nnz_mismatch (exp rnd : K → K) (kB NA : K) (E V : List K) (dist surf : Sp K) (D T : K)
    (hlen : E.length = V.length)
    (hnnz : dist.tocoo.data.length ≠ surf.tocoo.entries.length) (h1 : dist.tocoo.data.length ≠ 1) :
    getRateMatrix exp rnd kB NA E V dist surf D T = .error "ValueError" := by
  unfold getRateMatrix
  rw [if_neg (by simpa using hlen)]
  have hl : (surf.smul D).tocoo.entries.length = surf.tocoo.entries.length := by
    rw [tocoo_smul]; simp [Coo.smul]
  have hb : broadcastData (surf.smul D).tocoo.entries.length dist.tocoo.data = none := by
    unfold broadcastData; rw [hl, if_neg hnnz, if_neg h1]
  show (match broadcastData (surf.smul D).tocoo.entries.length dist.tocoo.data with
    | none => _ | some hd => _) = _
  rw [hb]

end Molgri.C01

/-! ### generator signs (ordered scalar fields) -/
namespace Molgri.C01
open Molgri.Sqra

section generator
variable {F : Type} [Field F] [LinearOrder F] [IsStrictOrderedRing F]

/-- **Off-diagonal entries are non-negative** (generator), all storages, no alignment needed. -/
theorem sqra_offdiag_nonneg (exp rnd : F → F) (kB NA T D : F) (S h : Coo F) (V E : Nat → F) (i j : Nat)
    (hexp : ∀ x, 0 < exp x) (hD : 0 ≤ D) (hS : ∀ e ∈ S.entries, 0 ≤ e.val) (hh : ∀ x ∈ h.data, 0 ≤ x)
    (hV : ∀ k, 0 ≤ V k) (hij : i ≠ j) :
    0 ≤ rate exp rnd kB NA T D S h V E i j := by
  unfold rate addDiag
  rw [if_neg hij, add_zero]
  unfold Coo.dense
  apply condSum_nonneg
  intro e he
  rw [offDiag_entries] at he
  obtain ⟨a, ha, x, hx, rfl⟩ := mem_zipWith_ent (w := entryVal exp rnd kB NA T D V E) he
  show 0 ≤ entryVal exp rnd kB NA T D V E a.row a.col a.val x
  unfold entryVal
  exact mul_nonneg (div_nonneg (div_nonneg (mul_nonneg hD (hS a ha)) (hh x hx)) (hV _)) (le_of_lt (hexp _))

/-- **Entries on the pattern are positive** when `D, S, h, V` are positive and `exp` is positive. -/
theorem sqra_offdiag_pos (exp rnd : F → F) (kB NA T D : F) (S h : Coo F) (V E : Nat → F) (i j : Nat)
    (hexp : ∀ x, 0 < exp x) (hD : 0 < D) (hS : ∀ e ∈ S.entries, 0 < e.val) (hh : ∀ e ∈ h.entries, 0 < e.val)
    (hV : ∀ k, 0 < V k) (hpat : S.idx = h.idx) (hnd : S.idx.Nodup) (hij : i ≠ j) (hmem : (i, j) ∈ S.idx) :
    0 < rate exp rnd kB NA T D S h V E i j := by
  rw [sqra_entry exp rnd kB NA T D S h V E i j hpat hnd hij, if_pos hmem]
  have sel_of_mem : ∀ (l : List (Ent F)), (i, j) ∈ l.map ix → ∃ e ∈ l, sel i j e = true := by
    intro l hm
    obtain ⟨e, he, hix⟩ := List.mem_map.mp hm
    simp only [ix, Prod.mk.injEq] at hix
    exact ⟨e, he, by simp [sel, hix.1, hix.2]⟩
  have p1 : 0 < S.dense i j := condSum_pos _ _ hS (sel_of_mem _ hmem)
  have p2 : 0 < h.dense i j := condSum_pos _ _ hh (sel_of_mem _ (by rw [show h.entries.map ix = h.idx from rfl, ← hpat]; exact hmem))
  exact mul_pos (div_pos (mul_pos hD p1) (mul_pos p2 (hV i))) (hexp _)

/-- **Diagonal entries are non-positive** when no diagonal position is stored. -/
theorem sqra_diag_nonpos (exp rnd : F → F) (kB NA T D : F) (S h : Coo F) (V E : Nat → F) (i : Nat)
    (hexp : ∀ x, 0 < exp x) (hD : 0 ≤ D) (hS : ∀ e ∈ S.entries, 0 ≤ e.val) (hh : ∀ x ∈ h.data, 0 ≤ x)
    (hV : ∀ k, 0 ≤ V k) (hoff : ∀ p ∈ S.idx, p.1 ≠ p.2) :
    rate exp rnd kB NA T D S h V E i i ≤ 0 := by
  unfold rate addDiag
  rw [if_pos rfl]
  have hnn : ∀ e ∈ (offDiag exp rnd kB NA T D S h.data V E).entries, 0 ≤ e.val := by
    intro e he
    rw [offDiag_entries] at he
    obtain ⟨a, ha, x, hx, rfl⟩ := mem_zipWith_ent (w := entryVal exp rnd kB NA T D V E) he
    show 0 ≤ entryVal exp rnd kB NA T D V E a.row a.col a.val x
    unfold entryVal
    exact mul_nonneg (div_nonneg (div_nonneg (mul_nonneg hD (hS a ha)) (hh x hx)) (hV _)) (le_of_lt (hexp _))
  have hz : (offDiag exp rnd kB NA T D S h.data V E).dense i i = 0 := by
    unfold Coo.dense
    apply dense_eq_zero_of_not_mem
    intro hm
    obtain ⟨e, he, hix⟩ := List.mem_map.mp hm
    rw [offDiag_entries] at he
    obtain ⟨a, ha, hr, hc⟩ := mem_zipWith_ix (w := entryVal exp rnd kB NA T D V E) he
    simp only [ix, Prod.mk.injEq] at hix
    exact hoff (a.row, a.col) (List.mem_map.mpr ⟨a, ha, rfl⟩) (by show a.row = a.col; omega)
  rw [hz, zero_add]
  have := condSum_nonneg (fun e => e.row == i) _ hnn
  unfold Coo.rowSum
  linarith

end generator

end Molgri.C01

/-! ### non-vacuity: a concrete input satisfying the hypotheses

Three cells; pattern `{0↔1, 1↔2}` (cell pair `0,2` not adjacent); the pair `(1,2)` lies beyond the cap
(`E₁ − E₂ = 703`), the pair `(0,1)` below it.  (`exp` hypotheses: see `Molgri/Props/C01Real.lean`, `Real.exp`.) -/
namespace Molgri.C01.Example
open Molgri.Sqra

def S : Coo Rat := ⟨3, [⟨0, 1, 2⟩, ⟨1, 0, 2⟩, ⟨1, 2, 5⟩, ⟨2, 1, 5⟩]⟩
def h : Coo Rat := ⟨3, [⟨0, 1, 1/2⟩, ⟨1, 0, 1/2⟩, ⟨1, 2, 3⟩, ⟨2, 1, 3⟩]⟩
def V : Nat → Rat := fun k => (k : Rat) + 1
def E : Nat → Rat := fun k => if k = 0 then 0 else if k = 1 then 3 else -700

/-- `hpat`, `hnd` (of `sqra_entry`, `sqra_entry_capped`, `sqra_detailed_balance*`, `sqra_offdiag_pos`) -/
example : S.idx = h.idx ∧ S.idx.Nodup ∧ (0, 1) ∈ S.idx ∧ (1, 2) ∈ S.idx ∧ (0, 2) ∉ S.idx := by decide
/-- `hcols` of `sqra_row_sum_zero`, `hoff` of `sqra_diag_nonpos` -/
example : (∀ p ∈ S.idx, p.2 < 3) ∧ (∀ p ∈ S.idx, p.1 ≠ p.2) := by decide
/-- canonical order, hypotheses of `aligned_of_canonical` -/
example : S.idx.Pairwise lexLt ∧ h.idx.Pairwise lexLt := by
  constructor <;> simp [Coo.idx, S, h, lexLt]
/-- `hcap1`, `hcap2` of the detailed-balance theorems for the pair `(0,1)` -/
example : E 0 - E 1 < 500 ∧ E 1 - E 0 < 500 := by norm_num [E]
/-- `hcap` of `sqra_entry_capped` for the pair `(1,2)` -/
example : ¬ E 1 - E 2 < 500 := by norm_num [E]
/-- `hS`, `hh`, `hVi`, `hVj` for the pair `(0,1)` -/
example : S.dense 0 1 = S.dense 1 0 ∧ h.dense 0 1 = h.dense 1 0 ∧ V 0 ≠ 0 ∧ V 1 ≠ 0 := by
  refine ⟨?_, ?_, ?_, ?_⟩ <;> norm_num [Coo.dense, condSum, S, h, V]
/-- positivity hypotheses of the generator theorems -/
example : (∀ e ∈ S.entries, 0 < e.val) ∧ (∀ e ∈ h.entries, 0 < e.val) ∧ (∀ k, 0 < V k) := by
  refine ⟨?_, ?_, ?_⟩
  · simp [S]
  · simp [h]
  · intro k; unfold V; positivity
/-- the guard of `getRateMatrix_ok` on this input given as two coo matrices -/
example : (Sp.coo h).tocoo.data.length = (Sp.coo S).tocoo.entries.length ∧
    (∀ e ∈ (Sp.coo S).tocoo.entries, e.row < 3 ∧ e.col < 3) ∧ (Sp.coo S).n = 3 ∧ (Sp.coo S).n ≠ 1 := by
  refine ⟨rfl, ?_, rfl, by decide⟩
  simp [Sp.tocoo, S]

end Molgri.C01.Example
