/-
C01 — non-vacuity of the scalar hypotheses: the theorems of `Molgri/Props/C01.lean` instantiated at `K = ℝ`,
`exp = Real.exp` (`Real.exp_add`, `Real.exp_zero`, `Real.exp_pos`), and detailed balance in the literal
form of the property, `V_i·exp(−E_i/RT)·Q_ij = V_j·exp(−E_j/RT)·Q_ji` with `R = k_B·N_A/1000` (kJ/(mol·K)).
-/
import Molgri.Props.C01
import Mathlib.Analysis.Complex.Exponential

namespace Molgri.C01
open Molgri.Sqra

/-- `2β = 1/(RT)` with `R = k_B·N_A/1000`. -/
theorem two_beta_real (kB NA T x : ℝ) : -(2 * beta kB NA T) * x = -x / (kB * NA / 1000 * T) := by
  unfold beta
  by_cases h : kB * NA * T = 0
  · have h2 : 2 * kB * NA * T = 0 := by linarith
    have h3 : kB * NA / 1000 * T = 0 := by linarith
    rw [h2, h3]; simp
  · have h1 : kB ≠ 0 := by intro h0; apply h; rw [h0]; ring
    have h2 : NA ≠ 0 := by intro h0; apply h; rw [h0]; ring
    have h3 : T ≠ 0 := by intro h0; apply h; rw [h0]; ring
    field_simp

/-- **Detailed balance over ℝ in the form of the property**, for every rounding function `rnd` that leaves the two
energy differences unchanged. -/
theorem sqra_detailed_balance_real (rnd : ℝ → ℝ) (kB NA T D : ℝ) (S h : Coo ℝ) (V E : Nat → ℝ) (i j : Nat)
    (hpat : S.idx = h.idx) (hnd : S.idx.Nodup) (hij : i ≠ j)
    (hS : S.dense i j = S.dense j i) (hh : h.dense i j = h.dense j i)
    (hVi : V i ≠ 0) (hVj : V j ≠ 0)
    (hcap1 : E i - E j < 500) (hcap2 : E j - E i < 500)
    (hr1 : rnd (E i - E j) = E i - E j) (hr2 : rnd (E j - E i) = E j - E i) :
    V i * Real.exp (-(E i) / (kB * NA / 1000 * T)) * rate Real.exp rnd kB NA T D S h V E i j
      = V j * Real.exp (-(E j) / (kB * NA / 1000 * T)) * rate Real.exp rnd kB NA T D S h V E j i := by
  have := sqra_detailed_balance Real.exp rnd kB NA T D S h V E i j Real.exp_add Real.exp_zero hpat hnd hij hS hh
    hVi hVj hcap1 hcap2 hr1 hr2
  rwa [two_beta_real, two_beta_real] at this

/-- **Detailed balance over ℝ for any rounding with `|rnd x − x| ≤ ε`** (numpy's `round(·,14)`: `ε = 5·10⁻¹⁵`
in exact arithmetic): the two sides agree up to a factor `exp δ` with `|δ| ≤ 2·|β|·ε`. -/
theorem sqra_detailed_balance_real_approx (rnd : ℝ → ℝ) (ε : ℝ) (kB NA T D : ℝ) (S h : Coo ℝ) (V E : Nat → ℝ)
    (i j : Nat) (hrnd : ∀ x, |rnd x - x| ≤ ε)
    (hpat : S.idx = h.idx) (hnd : S.idx.Nodup) (hij : i ≠ j)
    (hS : S.dense i j = S.dense j i) (hh : h.dense i j = h.dense j i)
    (hVi : V i ≠ 0) (hVj : V j ≠ 0)
    (hcap1 : E i - E j < 500) (hcap2 : E j - E i < 500) :
    ∃ δ : ℝ, |δ| ≤ 2 * |beta kB NA T| * ε ∧
      V i * Real.exp (-(E i) / (kB * NA / 1000 * T)) * rate Real.exp rnd kB NA T D S h V E i j
        = V j * Real.exp (-(E j) / (kB * NA / 1000 * T)) * rate Real.exp rnd kB NA T D S h V E j i * Real.exp δ := by
  have key := sqra_detailed_balance_rnd Real.exp rnd kB NA T D S h V E i j Real.exp_add hpat hnd hij hS hh
    hVi hVj hcap1 hcap2
  rw [two_beta_real, two_beta_real] at key
  set β := beta kB NA T
  set a := (E i - E j) - rnd (E i - E j) with ha
  set b := (E j - E i) - rnd (E j - E i) with hb
  refine ⟨β * b - β * a, ?_, ?_⟩
  · have h1 : |a| ≤ ε := by rw [ha, abs_sub_comm]; exact hrnd _
    have h2 : |b| ≤ ε := by rw [hb, abs_sub_comm]; exact hrnd _
    calc |β * b - β * a| = |β| * |b - a| := by rw [← mul_sub, abs_mul]
      _ ≤ |β| * (|b| + |a|) := by
          apply mul_le_mul_of_nonneg_left _ (abs_nonneg β)
          exact abs_sub b a
      _ ≤ |β| * (ε + ε) := by
          apply mul_le_mul_of_nonneg_left _ (abs_nonneg β)
          linarith
      _ = 2 * |β| * ε := by ring
  · rw [Real.exp_sub]
    have hpos : Real.exp (β * a) ≠ 0 := (Real.exp_pos _).ne'
    rw [← mul_div_assoc]
    exact eq_div_of_mul_eq hpos key

/-- Generator signs over ℝ: positive on the pattern, for positive `D, S, h, V`. -/
theorem sqra_offdiag_pos_real (rnd : ℝ → ℝ) (kB NA T D : ℝ) (S h : Coo ℝ) (V E : Nat → ℝ) (i j : Nat)
    (hD : 0 < D) (hS : ∀ e ∈ S.entries, 0 < e.val) (hh : ∀ e ∈ h.entries, 0 < e.val)
    (hV : ∀ k, 0 < V k) (hpat : S.idx = h.idx) (hnd : S.idx.Nodup) (hij : i ≠ j) (hmem : (i, j) ∈ S.idx) :
    0 < rate Real.exp rnd kB NA T D S h V E i j :=
  sqra_offdiag_pos Real.exp rnd kB NA T D S h V E i j Real.exp_pos hD hS hh hV hpat hnd hij hmem

end Molgri.C01
