/-
C02 — full-grid matrices are the symmetric product of position and rotation geometry.

Property theorems about `Molgri.FullGrid` (the model of `FullGrid._get_N_N`, `get_total_volumes`, the row
enumeration of `get_full_grid_as_array` and the antipode fold `HalfRotobjVoronoi._calculate_N_N_array`).

Quantifiers: every number of positions `nP = n_t·n_o ≥ 2` (the property asks for ≥ 2 radii; `nP = 1` is the shortcut
theorem `full_single_position`), every number of rotations `nB ≥ 1`, every factor `f`, every dense position matrix
`P` and rotation matrix `R` over any field `K` (an ordered field for positivity), each of the three selected
properties `sel`; every pair of cells `(a, b)`.

Cell `a` of the full grid has position index `a / nB` and rotation index `a % nB`.

What is a theorem here and what is not
* Theorems for all inputs: which entries are stored and with which value (`full_entry`, `full_dense`, `full_adjacent_iff`,
  `full_value`, `posValue_factor`), symmetry transfer (`full_symm`), empty diagonal (`full_diag_empty`), the stored order
  (`full_storage_order`), one pattern and one order for the three matrices (`full_common_pattern_order`), strict positivity
  (`full_positive`), volumes and row order (`volume_order`, `grid_row_order`), the `n_P = 1` shortcut, the csr sum of the two
  families (`full_parts`), and for the rotation block the closed form, symmetry and empty diagonal of the antipode fold
  (`half_entry`, `half_symm`, `half_diag`) with the end-to-end corollary `full_symm_of_fold`.
* Hypotheses, not theorems (they are statements about scipy/qhull geometry, owned by C03–C06 and C04, and are evaluated on
  the implementation by the oracle of this check on every run): the sub-grid matrices are symmetric, have empty diagonals,
  the three of one family have one support, entries are non-negative; the full-sphere rotation matrix is symmetric and
  antipodally symmetric and the grid is laid out as `G ++ -G`.
* OPEN (false for the code as it exists, finding F11): "the three matrices share one sparsity pattern" **without** the
  equal-support hypothesis.  `truthiness_drop` is the witness on the model: a zero border entry where the distance entry
  is non-zero is dropped by the truthiness filter from one matrix only.  On the implementation this happens for Cartesian
  position grids with very small direction grids (listed in findings/C02.json).
* "finite" entries: a field has no NaN/inf; this part of the clause is checked on the implementation only.
-/
import Molgri.Lemmas.FullGrid

namespace Molgri.C02
open Molgri.FullGrid

section
variable {K : Type} [Field K] [DecidableEq K]

/-! ## Pattern and values: the product rule -/

/-- **Stored entries.**  "Two cells are adjacent exactly when they have the same rotation and adjacent positions, or the
same position and adjacent rotations, and the entry then equals the corresponding position-grid or rotation-grid
quantity, with the factor applied to the position family": `(a, b, v)` is stored iff `v` is the value the
statement assigns to the pair (`specVal`: rotation entry if same position, plus factor × kept position entry if same
rotation) and that value is not zero. -/
theorem full_entry (nP nB : Nat) (sel : Sel) (f : K) (P R : Nat → Nat → K) (hP : 1 < nP) (hB : 0 < nB)
    (a b : Nat) (v : K) :
    (a, b, v) ∈ full nP nB sel f P R ↔
      a < nP * nB ∧ b < nP * nB ∧ v = specVal sel nB f P (rotDense nB R) a b ∧ v ≠ 0 := by
  rw [full_eq_scan_spec nP nB sel f P R hP hB, mem_scan]
  constructor
  · rintro ⟨h1, h2, h3, h4⟩; exact ⟨h1, h2, h3, h3 ▸ h4⟩
  · rintro ⟨h1, h2, h3, h4⟩; exact ⟨h1, h2, h3, h3 ▸ h4⟩

/-- The dense view (`toarray()`): every cell of the matrix carries the value of the statement. -/
theorem full_dense (nP nB : Nat) (sel : Sel) (f : K) (P R : Nat → Nat → K) (hP : 1 < nP) (hB : 0 < nB)
    (a b : Nat) (ha : a < nP * nB) (hb : b < nP * nB) :
    dense (full nP nB sel f P R) a b = specVal sel nB f P (rotDense nB R) a b := by
  rw [full_eq_scan_spec nP nB sel f P R hP hB, dense_scan]
  simp [ha, hb]

/-- "the two cases are disjoint": two different cells cannot agree in position and in rotation. -/
theorem families_disjoint (nB a b : Nat) (hab : a ≠ b) : ¬ (a / nB = b / nB ∧ a % nB = b % nB) :=
  fun h => hab (eq_of_div_mod h.1 h.2)

/-- Off the diagonal the value of the statement is one single term: the position term (same rotation), else the rotation
term (same position), else nothing. -/
theorem specVal_offdiag (sel : Sel) (nB : Nat) (f : K) (P R : Nat → Nat → K) (a b : Nat) (hab : a ≠ b) :
    specVal sel nB f P R a b =
      if a % nB = b % nB then (if P (a / nB) (b / nB) = 0 then 0 else posValue sel f (P (a / nB) (b / nB)))
      else if a / nB = b / nB then R (a % nB) (b % nB) else 0 := by
  unfold specVal
  by_cases h1 : a % nB = b % nB
  · have h2 : ¬ a / nB = b / nB := fun h => families_disjoint nB a b hab ⟨h, h1⟩
    simp [h1, h2]
  · simp [h1]

omit [DecidableEq K] in
theorem posValue_ne_zero (sel : Sel) (f el : K) (hf : f ≠ 0) (hel : el ≠ 0) : posValue sel f el ≠ 0 := by
  cases sel
  · exact one_ne_zero
  · exact mul_ne_zero hel (mul_ne_zero hf hf)
  · exact mul_ne_zero hel hf

/-- **Adjacency rule on the sparsity pattern** (sub-grid matrices with empty diagonal, `f ≠ 0`): `(a, b)` is a stored
position iff (same rotation ∧ position entry non-zero) ∨ (same position ∧ rotation entry non-zero). -/
theorem full_adjacent_iff (nP nB : Nat) (sel : Sel) (f : K) (P R : Nat → Nat → K) (hP : 1 < nP) (hB : 0 < nB)
    (hf : f ≠ 0) (hPd : ∀ i, i < nP → P i i = 0) (hRd : ∀ k, k < nB → R k k = 0) (a b : Nat) :
    (a, b) ∈ keys (full nP nB sel f P R) ↔
      a < nP * nB ∧ b < nP * nB ∧
        ((a % nB = b % nB ∧ P (a / nB) (b / nB) ≠ 0) ∨
         (a / nB = b / nB ∧ rotDense nB R (a % nB) (b % nB) ≠ 0)) := by
  have hmem : (a, b) ∈ keys (full nP nB sel f P R) ↔ ∃ v, (a, b, v) ∈ full nP nB sel f P R := by
    unfold keys key
    simp only [List.mem_map, Prod.mk.injEq]
    constructor
    · rintro ⟨⟨a', b', v⟩, h, rfl, rfl⟩; exact ⟨v, h⟩
    · rintro ⟨v, h⟩; exact ⟨(a, b, v), h, rfl, rfl⟩
  rw [hmem]
  simp only [full_entry nP nB sel f P R hP hB]
  constructor
  · rintro ⟨v, ha, hb, rfl, hv⟩
    refine ⟨ha, hb, ?_⟩
    by_cases hab : a = b
    · subst hab
      exfalso
      apply hv
      have h1 := hPd _ (div_lt_of_lt_mul' ha)
      have h2 := hRd _ (Nat.mod_lt a hB)
      unfold specVal rotDense
      simp [h1, h2]
    · rw [specVal_offdiag _ _ _ _ _ _ _ hab] at hv
      by_cases h1 : a % nB = b % nB
      · left
        refine ⟨h1, ?_⟩
        intro h0
        simp [h1, h0] at hv
      · right
        by_cases h2 : a / nB = b / nB
        · refine ⟨h2, ?_⟩
          simpa [h1, h2] using hv
        · simp [h1, h2] at hv
  · rintro ⟨ha, hb, h⟩
    refine ⟨_, ha, hb, rfl, ?_⟩
    have hab : a ≠ b := by
      rintro rfl
      rcases h with ⟨_, h⟩ | ⟨_, h⟩
      · exact h (hPd _ (div_lt_of_lt_mul' ha))
      · apply h
        unfold rotDense
        simp [hRd _ (Nat.mod_lt a hB)]
    rw [specVal_offdiag _ _ _ _ _ _ _ hab]
    rcases h with ⟨h1, h2⟩ | ⟨h1, h2⟩
    · simp only [h1, if_true, h2, if_false]
      exact posValue_ne_zero sel f _ hf h2
    · have h3 : ¬ a % nB = b % nB := fun h => families_disjoint nB a b hab ⟨h1, h⟩
      simpa [h3, h1] using h2

/-- **Values on the pattern**: a stored off-diagonal entry between cells of the same rotation is the position quantity
times the factor of the family (`1` / `f²` / `f`; adjacency is stored as `1`), between cells of the same position it is
the rotation quantity, unscaled. -/
theorem full_value (nP nB : Nat) (sel : Sel) (f : K) (P R : Nat → Nat → K) (hP : 1 < nP) (hB : 0 < nB)
    (a b : Nat) (v : K) (hab : a ≠ b) (hmem : (a, b, v) ∈ full nP nB sel f P R) :
    (a % nB = b % nB → v = posValue sel f (P (a / nB) (b / nB)) ∧ P (a / nB) (b / nB) ≠ 0) ∧
    (a / nB = b / nB → v = rotDense nB R (a % nB) (b % nB)) ∧
    (a % nB = b % nB ∨ a / nB = b / nB) := by
  obtain ⟨_, _, hv, hv0⟩ := (full_entry nP nB sel f P R hP hB a b v).mp hmem
  rw [specVal_offdiag _ _ _ _ _ _ _ hab] at hv
  refine ⟨?_, ?_, ?_⟩
  · intro h1
    by_cases h0 : P (a / nB) (b / nB) = 0
    · simp [h1, h0] at hv; exact absurd hv hv0
    · simp [h1, h0] at hv; exact ⟨hv, h0⟩
  · intro h2
    have h1 : ¬ a % nB = b % nB := fun h => families_disjoint nB a b hab ⟨h2, h⟩
    simpa [h1, h2] using hv
  · by_cases h1 : a % nB = b % nB
    · exact Or.inl h1
    · by_cases h2 : a / nB = b / nB
      · exact Or.inr h2
      · simp [h1, h2] at hv; exact absurd hv hv0

omit [DecidableEq K] in
/-- The factor is applied uniformly: `posValue` is the entry times `factorOf sel f` (`f²` for borders, `f` for
distances), for every kept position entry. -/
theorem posValue_factor (sel : Sel) (f el : K) (h : sel ≠ .adjacency) : posValue sel f el = el * factorOf sel f := by
  cases sel
  · exact absurd rfl h
  · rfl
  · rfl

/-! ## Symmetry and empty diagonal -/

/-- **Symmetry transfer**: symmetric sub-grid matrices give a symmetric value function … -/
theorem specVal_symm (sel : Sel) (nP nB : Nat) (f : K) (P R : Nat → Nat → K)
    (hPs : ∀ i j, i < nP → j < nP → P i j = P j i) (hRs : ∀ k l, k < nB → l < nB → R k l = R l k)
    (hB : 0 < nB) (a b : Nat) (ha : a < nP * nB) (hb : b < nP * nB) :
    specVal sel nB f P R a b = specVal sel nB f P R b a := by
  unfold specVal
  rw [hPs _ _ (div_lt_of_lt_mul' ha) (div_lt_of_lt_mul' hb), hRs _ _ (Nat.mod_lt a hB) (Nat.mod_lt b hB)]
  by_cases h1 : a / nB = b / nB <;> by_cases h2 : a % nB = b % nB <;> simp [h1, h2, eq_comm]

/-- … hence "the matrices are symmetric": `(a, b, v)` is stored iff `(b, a, v)` is. -/
theorem full_symm (nP nB : Nat) (sel : Sel) (f : K) (P R : Nat → Nat → K) (hP : 1 < nP) (hB : 0 < nB)
    (hPs : ∀ i j, i < nP → j < nP → P i j = P j i) (hRs : ∀ k l, k < nB → l < nB → R k l = R l k)
    (a b : Nat) (v : K) :
    (a, b, v) ∈ full nP nB sel f P R ↔ (b, a, v) ∈ full nP nB sel f P R := by
  have hRs' : ∀ k l, k < nB → l < nB → rotDense nB R k l = rotDense nB R l k := by
    intro k l hk hl
    unfold rotDense
    rw [hRs k l hk hl]
  rw [full_entry nP nB sel f P R hP hB, full_entry nP nB sel f P R hP hB]
  constructor
  · rintro ⟨ha, hb, hv, h0⟩
    exact ⟨hb, ha, by rw [hv, specVal_symm sel nP nB f P _ hPs hRs' hB a b ha hb], h0⟩
  · rintro ⟨hb, ha, hv, h0⟩
    exact ⟨ha, hb, by rw [hv, specVal_symm sel nP nB f P _ hPs hRs' hB b a hb ha], h0⟩

/-- "with empty diagonal": if the sub-grid matrices have empty diagonals, no diagonal entry is stored. -/
theorem full_diag_empty (nP nB : Nat) (sel : Sel) (f : K) (P R : Nat → Nat → K) (hP : 1 < nP) (hB : 0 < nB)
    (hPd : ∀ i, i < nP → P i i = 0) (hRd : ∀ k, k < nB → R k k = 0) (a : Nat) (v : K) :
    (a, a, v) ∉ full nP nB sel f P R := by
  rw [full_entry nP nB sel f P R hP hB]
  rintro ⟨ha, _, hv, h0⟩
  apply h0
  rw [hv]
  unfold specVal rotDense
  simp [hPd _ (div_lt_of_lt_mul' ha), hRd _ (Nat.mod_lt a hB)]

/-! ## One sparsity pattern, one stored entry order -/

/-- **Stored entry order**: the stored `(row, col)` sequence is the row-major enumeration of all pairs, filtered by
"the value of the statement is non-zero"; in particular it is strictly increasing in row-major order and has no
duplicates (a canonical csr). -/
theorem full_storage_order (nP nB : Nat) (sel : Sel) (f : K) (P R : Nat → Nat → K) (hP : 1 < nP) (hB : 0 < nB) :
    keys (full nP nB sel f P R)
        = (pairs (nP * nB)).filter (fun p => decide (specVal sel nB f P (rotDense nB R) p.1 p.2 ≠ 0)) ∧
    (keys (full nP nB sel f P R)).Pairwise rowMajorLt ∧
    (keys (full nP nB sel f P R)).Nodup := by
  have h : keys (full nP nB sel f P R)
      = (pairs (nP * nB)).filter (fun p => decide (specVal sel nB f P (rotDense nB R) p.1 p.2 ≠ 0)) := by
    rw [full_eq_scan_spec nP nB sel f P R hP hB, keys_scan]
  refine ⟨h, ?_, ?_⟩
  · rw [h]; exact (pairs_sorted _).filter _
  · rw [h]; exact (pairs_nodup _).filter _

/-- **Common pattern and order** ("share one sparsity pattern and stored entry order"): if the three position
matrices have one support and the three rotation matrices have one support (and empty diagonals, `f ≠ 0`), then
adjacency, borders and distances have *identical* stored `(row, col)` sequences.  This is the alignment that
`get_full_prefactors` / the SqRA division `borders.data / distances.tocoo().data` relies on. -/
theorem full_common_pattern_order (nP nB : Nat) (f : K) (Pa Pb Pd Ra Rb Rd : Nat → Nat → K)
    (hP : 1 < nP) (hB : 0 < nB) (hf : f ≠ 0)
    (hPab : ∀ i j, i < nP → j < nP → (Pa i j ≠ 0 ↔ Pb i j ≠ 0))
    (hPad : ∀ i j, i < nP → j < nP → (Pa i j ≠ 0 ↔ Pd i j ≠ 0))
    (hRab : ∀ k l, k < nB → l < nB → (Ra k l ≠ 0 ↔ Rb k l ≠ 0))
    (hRad : ∀ k l, k < nB → l < nB → (Ra k l ≠ 0 ↔ Rd k l ≠ 0))
    (hPd : ∀ i, i < nP → Pa i i = 0) (hRd : ∀ k, k < nB → Ra k k = 0) :
    keys (full nP nB .adjacency f Pa Ra) = keys (full nP nB .borders f Pb Rb) ∧
    keys (full nP nB .adjacency f Pa Ra) = keys (full nP nB .distances f Pd Rd) := by
  have hrot : ∀ (R R' : Nat → Nat → K), (∀ k l, k < nB → l < nB → (R k l ≠ 0 ↔ R' k l ≠ 0)) →
      ∀ k l, k < nB → l < nB → (rotDense nB R k l ≠ 0 ↔ rotDense nB R' k l ≠ 0) := by
    intro R R' h k l hk hl
    unfold rotDense
    by_cases hn : nB > 1
    · simpa [hn] using h k l hk hl
    · simp [hn]
  have hz : ∀ (X X' : Nat → Nat → K) (n : Nat), (∀ i j, i < n → j < n → (X i j ≠ 0 ↔ X' i j ≠ 0)) →
      (∀ i, i < n → X i i = 0) → ∀ i, i < n → X' i i = 0 := by
    intro X X' n h h0 i hi
    by_contra hne
    exact ((h i i hi hi).mpr hne) (h0 i hi)
  have main : ∀ (sel : Sel) (P' R' : Nat → Nat → K),
      (∀ i j, i < nP → j < nP → (Pa i j ≠ 0 ↔ P' i j ≠ 0)) →
      (∀ k l, k < nB → l < nB → (Ra k l ≠ 0 ↔ R' k l ≠ 0)) →
      keys (full nP nB .adjacency f Pa Ra) = keys (full nP nB sel f P' R') := by
    intro sel P' R' hPP hRR
    have hP'd := hz Pa P' nP hPP hPd
    have hR'd := hz Ra R' nB hRR hRd
    rw [(full_storage_order nP nB .adjacency f Pa Ra hP hB).1, (full_storage_order nP nB sel f P' R' hP hB).1]
    apply List.filter_congr
    rintro ⟨a, b⟩ hab
    obtain ⟨ha, hb⟩ := mem_pairs.mp hab
    have e1 := full_adjacent_iff nP nB .adjacency f Pa Ra hP hB hf hPd hRd a b
    have e2 := full_adjacent_iff nP nB sel f P' R' hP hB hf hP'd hR'd a b
    rw [(full_storage_order nP nB .adjacency f Pa Ra hP hB).1, List.mem_filter] at e1
    rw [(full_storage_order nP nB sel f P' R' hP hB).1, List.mem_filter] at e2
    have e1' : decide (specVal Sel.adjacency nB f Pa (rotDense nB Ra) a b ≠ 0) = true ↔ _ :=
      ⟨fun h => e1.mp ⟨hab, h⟩, fun h => (e1.mpr h).2⟩
    have e2' : decide (specVal sel nB f P' (rotDense nB R') a b ≠ 0) = true ↔ _ :=
      ⟨fun h => e2.mp ⟨hab, h⟩, fun h => (e2.mpr h).2⟩
    have hpp := hPP _ _ (div_lt_of_lt_mul' ha) (div_lt_of_lt_mul' hb)
    have hrr := hrot Ra R' hRR _ _ (Nat.mod_lt a hB) (Nat.mod_lt b hB)
    rw [Bool.eq_iff_iff]
    show decide (specVal Sel.adjacency nB f Pa (rotDense nB Ra) a b ≠ 0) = true ↔
      decide (specVal sel nB f P' (rotDense nB R') a b ≠ 0) = true
    rw [e1', e2', hpp, hrr]
  exact ⟨main .borders Pb Rb hPab hRab, main .distances Pd Rd hPad hRad⟩

/-- Corollary used by C01/C14: under the same hypotheses the border and the distance matrix are aligned entry by entry
(the SqRA division `borders.data / distances.tocoo().data`), have no duplicate position and no diagonal entry. -/
theorem borders_distances_aligned (nP nB : Nat) (f : K) (Pa Pb Pd Ra Rb Rd : Nat → Nat → K)
    (hP : 1 < nP) (hB : 0 < nB) (hf : f ≠ 0)
    (hPab : ∀ i j, i < nP → j < nP → (Pa i j ≠ 0 ↔ Pb i j ≠ 0))
    (hPad : ∀ i j, i < nP → j < nP → (Pa i j ≠ 0 ↔ Pd i j ≠ 0))
    (hRab : ∀ k l, k < nB → l < nB → (Ra k l ≠ 0 ↔ Rb k l ≠ 0))
    (hRad : ∀ k l, k < nB → l < nB → (Ra k l ≠ 0 ↔ Rd k l ≠ 0))
    (hPd : ∀ i, i < nP → Pa i i = 0) (hRd : ∀ k, k < nB → Ra k k = 0) :
    keys (full nP nB .borders f Pb Rb) = keys (full nP nB .distances f Pd Rd) ∧
    (keys (full nP nB .borders f Pb Rb)).Nodup ∧
    ∀ p ∈ keys (full nP nB .borders f Pb Rb), p.1 ≠ p.2 := by
  obtain ⟨h1, h2⟩ := full_common_pattern_order nP nB f Pa Pb Pd Ra Rb Rd hP hB hf hPab hPad hRab hRad hPd hRd
  refine ⟨h1.symm.trans h2, (full_storage_order nP nB .borders f Pb Rb hP hB).2.2, ?_⟩
  rintro ⟨a, b⟩ hp hab
  rw [← h1] at hp
  simp only at hab
  subst hab
  unfold keys key at hp
  simp only [List.mem_map, Prod.mk.injEq] at hp
  obtain ⟨⟨a', b', v⟩, hmem, h3, h4⟩ := hp
  simp only at h3 h4
  subst h3
  subst h4
  exact full_diag_empty nP nB .adjacency f Pa Ra hP hB hPd hRd _ v hmem

/-- Why "strictly positive" (no zero among the entries of one family when the others are non-zero there) is a
hypothesis that has to be checked on the implementation: **one zero border entry desynchronises borders from
distances** through the truthiness filter `if el:` (this is the mechanism of finding F11).  A concrete witness over
`ℤ`: 2 positions, 1 rotation; the distance matrix has the pair (0,1), the border matrix has a zero there. -/
theorem truthiness_drop :
    keys (full 2 1 .borders (1 : Int) (fun _ _ => 0) (fun _ _ => 0))
      ≠ keys (full 2 1 .distances (1 : Int) (fun i j => if i = j then 0 else 3) (fun _ _ => 0)) := by
  decide +kernel

/-- The returned matrix is the csr sum of the two families that `only_position=True` / `only_orientation=True` expose
(the keyword names are crossed in the code: `only_position` returns the same-position = rotation blocks). -/
theorem full_parts (nP nB : Nat) (sel : Sel) (f : K) (P R : Nat → Nat → K) (hP : 1 < nP) (a b : Nat) :
    full nP nB sel f P R
        = addCsr (nP * nB) (fullOnlyPosition nP nB R) (fullOnlyOrientation nP nB sel f P R) ∧
    (a < nP * nB → b < nP * nB → dense (full nP nB sel f P R) a b
        = dense (fullOnlyPosition nP nB R) a b + dense (fullOnlyOrientation nP nB sel f P R) a b) := by
  have hP' : nP > 1 := hP
  have h : full nP nB sel f P R
      = addCsr (nP * nB) (fullOnlyPosition nP nB R) (fullOnlyOrientation nP nB sel f P R) := by
    unfold full fullOnlyPosition fullOnlyOrientation
    simp only [hP', if_true]
  refine ⟨h, ?_⟩
  intro ha hb
  rw [h, addCsr_eq_scan, dense_scan]
  simp [ha, hb]

/-! ## The `n_t·n_o = 1` shortcut -/

/-- With a single position the rotation matrix is returned as it is (unscaled, its own `coo` order). -/
theorem full_single_position (nB : Nat) (sel : Sel) (f : K) (P R : Nat → Nat → K) (a b : Nat) (v : K) :
    full 1 nB sel f P R = cooOfDense nB (rotDense nB R) ∧
    ((a, b, v) ∈ full 1 nB sel f P R ↔ a < nB ∧ b < nB ∧ v = rotDense nB R a b ∧ v ≠ 0) := by
  have h : full 1 nB sel f P R = cooOfDense nB (rotDense nB R) := by
    unfold full
    simp [rotInput_eq]
  refine ⟨h, ?_⟩
  rw [h]
  unfold cooOfDense
  rw [mem_scan]
  constructor
  · rintro ⟨h1, h2, h3, h4⟩; exact ⟨h1, h2, h3, h3 ▸ h4⟩
  · rintro ⟨h1, h2, h3, h4⟩; exact ⟨h1, h2, h3, h3 ▸ h4⟩

/-! ## Volumes and cell order -/

omit [DecidableEq K] in
/-- **Volume order**: "The 6D volume of cell n equals position-cell volume times rotation-cell volume times f³, listed in
the same cell order as the matrices": entry `n` of `get_total_volumes()` is `Vpos[n / nB] · f³ · Vrot[n % nB]`. -/
theorem volume_order (f : K) (Vpos Vrot : List K) (n : Nat) :
    (totalVolumes f Vpos Vrot).length = Vpos.length * Vrot.length ∧
    (totalVolumes f Vpos Vrot)[n]? =
      (Vpos[n / Vrot.length]?).bind fun p => (Vrot[n % Vrot.length]?).map fun b => p * f ^ 3 * b := by
  unfold totalVolumes
  refine ⟨length_flatMap_map _ _ _, ?_⟩
  rw [getElem?_flatMap_map (fun p b => p * (f * f * f) * b)]
  have : f * f * f = f ^ 3 := by ring
  simp only [this]

end

/-- "… and as the rows of the grid array": row `n` of `get_full_grid_as_array()` is (position `n / nB`, quaternion
`n % nB`) — the same decomposition of `n` as in the matrices and in the volumes. -/
theorem grid_row_order {α β : Type} (positions : List α) (quats : List β) (n : Nat) :
    (fullArray positions quats).length = positions.length * quats.length ∧
    (fullArray positions quats)[n]? =
      (positions[n / quats.length]?).bind fun p => (quats[n % quats.length]?).map fun q => (p, q) := by
  unfold fullArray
  exact ⟨length_flatMap_map _ _ _, getElem?_flatMap_map (fun p q => (p, q)) _ _ _⟩

/-! ## Strict positivity -/

section
variable {K : Type} [Field K] [LinearOrder K] [IsStrictOrderedRing K]

/-- "have strictly positive … entries": non-negative sub-grid matrices and a positive factor give strictly positive
stored entries (zeros are never stored). -/
theorem full_positive (nP nB : Nat) (sel : Sel) (f : K) (P R : Nat → Nat → K) (hP : 1 < nP) (hB : 0 < nB)
    (hf : 0 < f) (hPn : ∀ i j, i < nP → j < nP → 0 ≤ P i j) (hRn : ∀ k l, k < nB → l < nB → 0 ≤ R k l)
    (a b : Nat) (v : K) (hmem : (a, b, v) ∈ full nP nB sel f P R) : 0 < v := by
  obtain ⟨ha, hb, hv, h0⟩ := (full_entry nP nB sel f P R hP hB a b v).mp hmem
  have h1 : 0 ≤ rotDense nB R (a % nB) (b % nB) := by
    unfold rotDense
    split
    · exact hRn _ _ (Nat.mod_lt a hB) (Nat.mod_lt b hB)
    · exact le_refl _
  have h2 : 0 ≤ posValue sel f (P (a / nB) (b / nB)) := by
    have hp := hPn _ _ (div_lt_of_lt_mul' ha) (div_lt_of_lt_mul' hb)
    cases sel
    · exact zero_le_one
    · exact mul_nonneg hp (mul_nonneg hf.le hf.le)
    · exact mul_nonneg hp hf.le
  have hnn : 0 ≤ specVal sel nB f P (rotDense nB R) a b := by
    unfold specVal
    apply add_nonneg
    · split
      · exact h1
      · exact le_refl _
    · split
      · split
        · exact le_refl _
        · exact h2
      · exact le_refl _
  rw [hv] at h0 ⊢
  exact lt_of_le_of_ne hnn (Ne.symm h0)

end

/-! ## The rotation block: antipode fold -/

section
variable {K : Type} [Field K] [DecidableEq K]

/-- The list of dense rows that the driver prints (`halfRows`, the array handed to `coo_array` in line 401) is the table
of `halfDense`, the function the theorems below speak about. -/
theorem halfRows_spec (m : Nat) (opp : Nat → Option Nat) (upper : List Nat) (A : Nat → Nat → K) :
    halfRows m opp upper A =
      (List.range upper.length).map fun a => (List.range upper.length).map fun b => halfDense m opp upper A a b := by
  unfold halfRows halfDense
  rw [map_eq_range_map upper _ 0]
  apply List.map_congr_left
  intro a _
  exact map_eq_range_map upper _ 0

/-- **Closed form of the folded matrix.**  For a full double cover (`opp` is a fixed-point free involution of
`0 … m-1`) whose upper indices are the smaller index of each antipodal pair, the entry of the half-sphere matrix
between upper cells `a`, `b` is the full-sphere entry towards `b` when that is non-zero and the entry towards `−b`
otherwise: rotations are adjacent iff `a ~ b` or `a ~ −b` on the sphere. -/
theorem half_entry (m : Nat) (opp : Nat → Option Nat) (o : Nat → Nat) (upper : List Nat) (A : Nat → Nat → K)
    (ho : ∀ j, j < m → opp j = some (o j)) (hinv : ∀ j, j < m → o (o j) = j)
    (hlt : ∀ j, j < m → o j < m) (hne : ∀ j, j < m → o j ≠ j)
    (hup : ∀ u ∈ upper, u < m ∧ u < o u) (a b : Nat) (ha : a < upper.length) (hb : b < upper.length) :
    halfDense m opp upper A a b = fnz (A upper[a] upper[b]) (A upper[a] (o upper[b])) := by
  unfold halfDense foldAll
  have e1 : upper.getD a 0 = upper[a] := by simp [List.getD_eq_getElem?_getD, ha]
  have e2 : upper.getD b 0 = upper[b] := by simp [List.getD_eq_getElem?_getD, hb]
  rw [e1, e2]
  obtain ⟨hbm, hbo⟩ := hup upper[b] (List.getElem_mem hb)
  rw [foldRow_spec m opp o _ (by simp) ho hinv hlt hne _ hbm]
  have h1 : min upper[b] (o upper[b]) = upper[b] := by omega
  have h2 : max upper[b] (o upper[b]) = o upper[b] := by omega
  rw [h1, h2, getD_range_map _ _ _ hbm, getD_range_map _ _ _ (hlt _ hbm)]

/-- **The folded rotation matrix is symmetric** when the full-sphere matrix is symmetric and antipodally symmetric
(`A (−i) (−j) = A i j`).  (Before the repair of finding F1 the guard dropped the pair of index 0 and this failed.) -/
theorem half_symm (m : Nat) (opp : Nat → Option Nat) (o : Nat → Nat) (upper : List Nat) (A : Nat → Nat → K)
    (ho : ∀ j, j < m → opp j = some (o j)) (hinv : ∀ j, j < m → o (o j) = j)
    (hlt : ∀ j, j < m → o j < m) (hne : ∀ j, j < m → o j ≠ j)
    (hup : ∀ u ∈ upper, u < m ∧ u < o u)
    (hAs : ∀ i j, i < m → j < m → A i j = A j i)
    (hAa : ∀ i j, i < m → j < m → A (o i) (o j) = A i j)
    (a b : Nat) (ha : a < upper.length) (hb : b < upper.length) :
    halfDense m opp upper A a b = halfDense m opp upper A b a := by
  rw [half_entry m opp o upper A ho hinv hlt hne hup a b ha hb,
    half_entry m opp o upper A ho hinv hlt hne hup b a hb ha]
  obtain ⟨ham, _⟩ := hup upper[a] (List.getElem_mem ha)
  obtain ⟨hbm, _⟩ := hup upper[b] (List.getElem_mem hb)
  have e1 : A upper[b] upper[a] = A upper[a] upper[b] := hAs _ _ hbm ham
  have e2 : A upper[b] (o upper[a]) = A upper[a] (o upper[b]) := by
    rw [← hAa upper[b] (o upper[a]) hbm (hlt _ ham), hinv _ ham]
    exact hAs _ _ (hlt _ hbm) ham
  rw [e1, e2]

/-- The folded matrix keeps an empty diagonal when no cell is adjacent to itself or to its own antipode. -/
theorem half_diag (m : Nat) (opp : Nat → Option Nat) (o : Nat → Nat) (upper : List Nat) (A : Nat → Nat → K)
    (ho : ∀ j, j < m → opp j = some (o j)) (hinv : ∀ j, j < m → o (o j) = j)
    (hlt : ∀ j, j < m → o j < m) (hne : ∀ j, j < m → o j ≠ j)
    (hup : ∀ u ∈ upper, u < m ∧ u < o u)
    (hd : ∀ i, i < m → A i i = 0 ∧ A i (o i) = 0) (a : Nat) (ha : a < upper.length) :
    halfDense m opp upper A a a = 0 := by
  rw [half_entry m opp o upper A ho hinv hlt hne hup a a ha ha]
  obtain ⟨ham, _⟩ := hup upper[a] (List.getElem_mem ha)
  obtain ⟨h1, h2⟩ := hd _ ham
  simp [fnz, h1, h2]

/-- **End to end**: with the rotation block produced by the fold from a symmetric, antipodally symmetric full-sphere
matrix and a symmetric position matrix, the full-grid matrix is symmetric. -/
theorem full_symm_of_fold (nP : Nat) (sel : Sel) (f : K) (P : Nat → Nat → K) (hP : 1 < nP)
    (m : Nat) (opp : Nat → Option Nat) (o : Nat → Nat) (upper : List Nat) (A : Nat → Nat → K)
    (hU : 0 < upper.length)
    (ho : ∀ j, j < m → opp j = some (o j)) (hinv : ∀ j, j < m → o (o j) = j)
    (hlt : ∀ j, j < m → o j < m) (hne : ∀ j, j < m → o j ≠ j)
    (hup : ∀ u ∈ upper, u < m ∧ u < o u)
    (hAs : ∀ i j, i < m → j < m → A i j = A j i)
    (hAa : ∀ i j, i < m → j < m → A (o i) (o j) = A i j)
    (hPs : ∀ i j, i < nP → j < nP → P i j = P j i) (a b : Nat) (v : K) :
    (a, b, v) ∈ full nP upper.length sel f P (halfDense m opp upper A) ↔
      (b, a, v) ∈ full nP upper.length sel f P (halfDense m opp upper A) :=
  full_symm nP upper.length sel f P _ hP hU hPs
    (fun k l hk hl => half_symm m opp o upper A ho hinv hlt hne hup hAs hAa k l hk hl) a b v

/-- Regression witness for finding F1 (the pre-repair guard `if opp_ind:` is false for the index array `[0]`, so the
antipode of grid point 0 — index 2 here — is never registered).  Full sphere `0, 1, 2 = −0, 3 = −1` with `0 ~ −1`
(hence `−0 ~ 1`): folded with the incomplete table the half matrix is `[[0,1],[0,0]]` (cell 0 sees 1, cell 1 does not
see 0); with the repaired table it is the symmetric `[[0,1],[1,0]]`.  A concrete witness, not a theorem about all
inputs. -/
theorem fold_guard_regression :
    halfRows 4 (fun i => if i = 2 then none else if i < 4 then some ((i + 2) % 4) else none) [0, 1]
        (ofRows [[0, 0, 0, 1], [0, 0, 1, 0], [0, 1, 0, 0], [1, 0, 0, 0]] : Nat → Nat → Int) = [[0, 1], [0, 0]] ∧
    halfRows 4 (fun i => if i < 4 then some ((i + 2) % 4) else none) [0, 1]
        (ofRows [[0, 0, 0, 1], [0, 0, 1, 0], [0, 1, 0, 0], [1, 0, 0, 0]] : Nat → Nat → Int) = [[0, 1], [1, 0]] := by
  decide +kernel

end

/-! ## Non-vacuity: concrete inputs that satisfy the hypotheses used above -/

/-- a position matrix: 3 positions on a path `0 — 1 — 2` with value 2 -/
def exP : Nat → Nat → Rat := fun i j => if i + 1 = j ∨ j + 1 = i then 2 else 0
/-- a rotation matrix: 2 rotations, adjacent, value 5 -/
def exR : Nat → Nat → Rat := fun k l => if k = l then 0 else 5

example : (∀ i, i < 3 → exP i i = 0) ∧ (∀ i j, i < 3 → j < 3 → exP i j = exP j i) ∧
    (∀ i j, i < 3 → j < 3 → 0 ≤ exP i j) := by
  refine ⟨?_, ?_, ?_⟩
  · intro i _; simp [exP]
  · intro i j _ _; simp [exP, or_comm]
  · intro i j _ _; unfold exP; split
    · exact zero_le_two
    · exact le_refl _
example : (∀ k, k < 2 → exR k k = 0) ∧ (∀ k l, k < 2 → l < 2 → exR k l = exR l k) ∧
    (∀ k l, k < 2 → l < 2 → 0 ≤ exR k l) := by
  refine ⟨?_, ?_, ?_⟩
  · intro k _; simp [exR]
  · intro k l _ _; simp [exR, eq_comm]
  · intro k l _ _; unfold exR; split
    · exact le_refl _
    · exact le_of_lt (by decide)
/-- … and the matrix assembled from them is not empty: cells 0 = (pos 0, rot 0) and 2 = (pos 1, rot 0) carry the
border `2 · f²`, cells 0 and 1 = (pos 0, rot 1) carry the rotation value 5. -/
example : (0, 2, (18 : Rat)) ∈ full 3 2 .borders 3 exP exR ∧ (0, 1, (5 : Rat)) ∈ full 3 2 .borders 3 exP exR := by
  decide +kernel

/-- the hypotheses of `half_entry` / `half_symm` / `half_diag` hold for the double cover `0, 1, −0, −1` with `0 ~ −1`. -/
example :
    let o : Nat → Nat := fun i => (i + 2) % 4
    let opp : Nat → Option Nat := fun i => if i < 4 then some ((i + 2) % 4) else none
    let A : Nat → Nat → Int := ofRows [[0, 0, 0, 1], [0, 0, 1, 0], [0, 1, 0, 0], [1, 0, 0, 0]]
    (∀ j, j < 4 → opp j = some (o j)) ∧ (∀ j, j < 4 → o (o j) = j) ∧ (∀ j, j < 4 → o j < 4) ∧
    (∀ j, j < 4 → o j ≠ j) ∧ (∀ u ∈ [0, 1], u < 4 ∧ u < o u) ∧
    (∀ i, i < 4 → ∀ j, j < 4 → A i j = A j i) ∧ (∀ i, i < 4 → ∀ j, j < 4 → A (o i) (o j) = A i j) := by
  decide +kernel

end Molgri.C02
