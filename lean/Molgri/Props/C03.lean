/-
C03 — direction-grid cells are the true Voronoi tessellation of the sphere.

Property theorems about `Molgri.Voronoi` (the model of `get_reduced_vertices_regions`,
`_calculate_N_N_array`, `_calculate_center_distances`, `_calculate_borders` for direction grids).

Part 1 (M1, the logic the code puts on top of scipy's `SphericalVoronoi`; quantifier: **every**
`vertices`/`regions`/`centers` input whatsoever, every closeness test, every value function):
  `reduce_total`, `reduce_total_isclose`, `reduce_spec`, `reduce_first_close`, `reduce_exact`,
  `reduced_membership`, `shared_reduced_iff_common_points`,
  `nn_pattern_iff`, `nn_symm`, `nn_diag_empty`, `nn_nodup`, `nn_common_pattern`, `three_matrices_one_pattern`,
  `nn_in_shape`, `nn_value`, `distance_value`, `border_value_partial`, `cosData_symm`, `svd_projection_keeps_dot`.
Part 2 (M2, what a cell is; any linearly ordered field):
  `inCell_iff_nearest`, `certEpsB_iff`, `regionsCertifiedB_iff`, `fast_certificate_eq`, `inCell_smul`, `cert_cone`,
  `shared_arc_of_two_certified`, `shared_point_iff`, `arc_nondegenerate`, `arc_ne_zero`,
  and the composition `adjacent_shares_arc_partial`: a pair the code reports adjacent shares a whole arc of both cells,
  provided scipy's vertices pass the certificate the check evaluates exactly on every run.

OPEN (not theorems; covered only by the per-pair oracle sweep of `harness/props/c03.py`, which runs on
every run):
  * completeness — "two points are adjacent **exactly** when their regions share an arc of positive
    length", direction ⇐: every true neighbour is reported, and the reported arc is the *whole* shared
    arc (`border = arc length`).  It needs "scipy/qhull lists every Voronoi vertex", which is external.
    Full statement:  ∀ i j, (∃ x y, ¬ parallel x y ∧ x, y ∈ cell i ∩ cell j) → (i, j) ∈ pattern.
  * "the cell area equals the area of the region; areas are positive and sum to 4π":
    `SphericalVoronoi.calculate_areas` is scipy code, passed through unchanged by the anchored code.
-/
import Molgri.Lemmas.Voronoi

namespace Molgri.C03
open Molgri.Voronoi

/-! ## Part 1a — exact-duplicate vertex reduction and re-indexing -/

section reduce
variable {α : Type} [DecidableEq α]

/-- The reduction never raises on scipy-shaped input: if the closeness test is reflexive (true of
`np.isclose` on finite numbers, `closeRow_self`) and every region entry is a vertex index, the result exists
(`which_row_is_k(...)[0]` cannot hit an empty array, `old2new[el]` cannot miss). -/
theorem reduce_total (close : α → α → Bool) (hrefl : ∀ a, close a a = true)
    (verts : List α) (regions : List (List Nat)) (hreg : ∀ r ∈ regions, ∀ el ∈ r, el < verts.length) :
    ∃ nr, reduce close verts regions = .ok (dedupFirst verts, nr) := by
  have h1 : ∃ o2n, old2new close verts = .ok o2n := by
    apply mapE_total
    intro o ho
    unfold lookupNew firstClose
    cases hf : (dedupFirst verts).findIdx? (close o) with
    | some k => exact ⟨k, rfl⟩
    | none =>
      rw [List.findIdx?_eq_none_iff] at hf
      have := hf o (mem_dedupFirst.2 ho)
      rw [hrefl] at this
      cases this
  obtain ⟨o2n, ho2n⟩ := h1
  have hlen : o2n.length = verts.length := by
    have := (mapE_ok_iff _ _ _).1 ho2n
    exact this.length_eq.symm
  have h2 : ∃ nr, mapE (reindexRegion o2n) regions = .ok nr := by
    apply mapE_total
    intro r hr
    apply mapE_total
    intro el hel
    unfold lookupKey
    have : el < o2n.length := by rw [hlen]; exact hreg r hr el hel
    rw [List.getElem?_eq_getElem this]
    exact ⟨_, rfl⟩
  obtain ⟨nr, hnr⟩ := h2
  refine ⟨nr, ?_⟩
  unfold reduce
  rw [ho2n]
  simp only [hnr]

/-- **What the reduction returns.** The new vertices are the distinct old vertices (first occurrences, in
order, nothing lost, nothing repeated); regions keep their number, lengths and order, and every entry `el`
is replaced by the index of the *first* new vertex that is close to old vertex `el`. -/
theorem reduce_spec (close : α → α → Bool) (verts nv : List α) (regions nr : List (List Nat))
    (h : reduce close verts regions = .ok (nv, nr)) :
    nv = dedupFirst verts ∧ nv.Nodup ∧ (∀ v, v ∈ nv ↔ v ∈ verts) ∧
    List.Forall₂ (List.Forall₂ fun el k => ∃ o, verts[el]? = some o ∧ nv.findIdx? (close o) = some k)
      regions nr := by
  unfold reduce at h
  split at h
  · cases h
  · rename_i o2n ho2n
    split at h
    · cases h
    · rename_i nr' hnr
      cases h
      refine ⟨rfl, nodup_dedupFirst _, fun v => mem_dedupFirst, ?_⟩
      have h1 := (mapE_ok_iff _ _ _).1 ho2n
      have h2 := (mapE_ok_iff _ _ _).1 hnr
      refine h2.imp ?_
      intro r r' hr
      have h3 := (mapE_ok_iff _ _ _).1 hr
      refine h3.imp ?_
      intro el k hk
      unfold lookupKey at hk
      cases hget : o2n[el]? with
      | none => rw [hget] at hk; cases hk
      | some k' =>
        rw [hget] at hk
        cases hk
        obtain ⟨hlt, hk'⟩ := List.getElem?_eq_some_iff.1 hget
        have hlen := h1.length_eq
        have hlt' : el < verts.length := by rw [hlen]; exact hlt
        refine ⟨verts[el], List.getElem?_eq_getElem hlt', ?_⟩
        have := List.Forall₂.get h1 hlt' hlt
        simp only [List.get_eq_getElem] at this
        unfold lookupNew firstClose at this
        rw [hk'] at this
        cases hf : (dedupFirst verts).findIdx? (close verts[el]) with
        | none => rw [hf] at this; cases this
        | some k'' => rw [hf] at this; cases this; rfl

omit [DecidableEq α] in
/-- The re-indexed vertex is close to the original one and is the first such row (`which_row_is_k(…)[0]`). -/
theorem reduce_first_close (close : α → α → Bool) (nv : List α) (o : α) (k : Nat)
    (h : nv.findIdx? (close o) = some k) :
    ∃ hk : k < nv.length, close o nv[k] = true ∧ ∀ j (hj : j < k), close o (nv[j]'(Nat.lt_trans hj hk)) = false := by
  obtain ⟨hk, h1, h2⟩ := List.findIdx?_eq_some_iff_getElem.1 h
  exact ⟨hk, h1, fun j hj => by simpa using h2 j hj⟩

/-- If the closeness test identifies no two *different* scipy vertices (no near-duplicates within the
`isclose` tolerance), the re-indexing is exact: the new index points at the very same vertex. -/
theorem reduce_exact (close : α → α → Bool) (verts : List α)
    (hsep : ∀ a ∈ verts, ∀ b ∈ verts, close a b = true → a = b)
    (o : α) (ho : o ∈ verts) (k : Nat) (h : (dedupFirst verts).findIdx? (close o) = some k) :
    (dedupFirst verts)[k]? = some o := by
  obtain ⟨hk, h1, _⟩ := reduce_first_close close _ o k h
  rw [List.getElem?_eq_getElem hk]
  have hm : (dedupFirst verts)[k] ∈ verts := mem_dedupFirst.1 (List.getElem_mem hk)
  rw [hsep o ho _ hm h1]

/-- **No de-duplication slip.**  When no two different scipy vertices are within the closeness tolerance
(scipy/qhull repeats a degenerate vertex bit-identically, which is what happens on every grid explored),
a reduced region lists exactly the indices of the *points* its scipy region lists: `k` is in the new region
iff some old entry `el` of the region is the very vertex `nv[k]`. -/
theorem reduced_membership (close : α → α → Bool) (verts nv : List α) (regions nr : List (List Nat))
    (hsep : ∀ a ∈ verts, ∀ b ∈ verts, close a b = true → a = b)
    (h : reduce close verts regions = .ok (nv, nr)) :
    List.Forall₂ (fun r r' => ∀ k, k ∈ r' ↔ ∃ el ∈ r, ∃ o, verts[el]? = some o ∧ nv[k]? = some o) regions nr := by
  obtain ⟨hnv, hnd, _, hf⟩ := reduce_spec close verts nv regions nr h
  refine hf.imp ?_
  intro r r' hr k
  have key : ∀ (el k' : Nat), (∃ o, verts[el]? = some o ∧ nv.findIdx? (close o) = some k') →
      ∃ o, verts[el]? = some o ∧ nv[k']? = some o := by
    rintro el k' ⟨o, ho, hk'⟩
    refine ⟨o, ho, ?_⟩
    rw [hnv] at hk' ⊢
    exact reduce_exact close verts hsep o (List.mem_of_getElem? ho) k' hk'
  constructor
  · intro hk
    obtain ⟨el, hel, hrel⟩ := forall₂_mem_right hr hk
    exact ⟨el, hel, key el k hrel⟩
  · rintro ⟨el, hel, o, ho, hko⟩
    obtain ⟨k', hk', hrel⟩ := forall₂_mem_left hr hel
    obtain ⟨o', ho', hk'o⟩ := key el k' hrel
    rw [ho] at ho'
    cases ho'
    rw [nodup_getElem?_inj hnd hko hk'o]
    exact hk'

/-- … hence the adjacency test "at least `dim - 1` shared reduced vertices" counts the distinct vertex
*points* common to the two scipy regions: `a` is a shared reduced index of regions `i`, `j` iff the point
`nv[a]` is listed (under whatever old index) by scipy region `i` and by scipy region `j`. -/
theorem shared_reduced_iff_common_points (close : α → α → Bool) (verts nv : List α) (regions nr : List (List Nat))
    (hsep : ∀ a ∈ verts, ∀ b ∈ verts, close a b = true → a = b)
    (h : reduce close verts regions = .ok (nv, nr)) (i j : Nat) (hi : i < regions.length) (hj : j < regions.length)
    (a : Nat) :
    a ∈ sharedIdx (nr.getD i []) (nr.getD j []) ↔
      (∃ el ∈ regions.getD i [], ∃ o, verts[el]? = some o ∧ nv[a]? = some o) ∧
      (∃ el ∈ regions.getD j [], ∃ o, verts[el]? = some o ∧ nv[a]? = some o) := by
  have hf := reduced_membership close verts nv regions nr hsep h
  have hlen := hf.length_eq
  have hi' : i < nr.length := hlen ▸ hi
  have hj' : j < nr.length := hlen ▸ hj
  have gi := List.Forall₂.get hf hi hi'
  have gj := List.Forall₂.get hf hj hj'
  simp only [List.get_eq_getElem] at gi gj
  rw [mem_sharedIdx]
  simp only [List.getD_eq_getElem?_getD, List.getElem?_eq_getElem hi, List.getElem?_eq_getElem hj,
    List.getElem?_eq_getElem hi', List.getElem?_eq_getElem hj', Option.getD_some]
  rw [gi a, gj a]

end reduce

/-- `reduce_total` for the closeness test the code uses (`np.isclose`, default tolerances, decided exactly):
on scipy-shaped input `get_reduced_vertices_regions` raises neither `IndexError` nor `KeyError`. -/
theorem reduce_total_isclose (verts : List (V3 Rat)) (regions : List (List Nat))
    (hreg : ∀ r ∈ regions, ∀ el ∈ r, el < verts.length) :
    ∃ nr, reduce closeRow verts regions = .ok (dedupFirst verts, nr) :=
  reduce_total closeRow closeRow_self verts regions hreg

/-- non-vacuity: a near-duplicate (`11` is "close" to `10`) is re-indexed to the first close row, exact
duplicates are dropped, repeated region entries stay repeated -/
example : reduce (fun a b : Nat => decide (a / 10 = b / 10)) [10, 11, 10, 25] [[0, 1, 2], [3, 1], [2, 2]]
    = .ok ([10, 11, 25], [[0, 0, 0], [2, 0], [0, 0]]) := by decide

/-- non-vacuity of `hrefl`, `hreg` (`reduce_total`) and of `hsep` (`reduce_exact`, `reduced_membership`,
`shared_reduced_iff_common_points`) on a list with an exact duplicate -/
example : (∀ a : Nat, decide (a / 10 = a / 10) = true) ∧
    (∀ r ∈ [[0, 1, 2], [3, 1], [2, 2]], ∀ el ∈ r, el < [10, 25, 10, 37].length) ∧
    (∀ a ∈ [10, 25, 10, 37], ∀ b ∈ [10, 25, 10, 37], decide (a / 10 = b / 10) = true → a = b) := by
  refine ⟨fun a => by simp, by decide, by decide⟩

/-! ## Part 1b — `_calculate_N_N_array`: one predicate, one pattern, symmetric, empty diagonal -/

section nn
variable {β : Type}

/-- "two points are adjacent exactly when …" on the level of the code: an index pair is stored iff the
two regions are different regions of the list and have at least `dim - 1` reduced vertices in common. -/
theorem nn_pattern_iff (dim N : Nat) (R : List (List Nat)) (val : Nat → Nat → Except String β)
    (es : List (Nat × Nat × β)) (h : nnArray dim N R val = .ok es) (i j : Nat) :
    (i, j) ∈ pattern es ↔
      i ≠ j ∧ i < R.length ∧ j < R.length ∧ dim - 1 ≤ (sharedIdx (R.getD i []) (R.getD j [])).length := by
  obtain ⟨h1, _⟩ := nnArray_ok h
  obtain ⟨bs, hbs, rfl⟩ := (nnEntries_ok_iff _ _ _ _).1 h1
  rw [pattern_flatten_blocks hbs]
  have := mem_nnPattern (dim := dim) (R := R) (i := i) (j := j)
  unfold nnPattern at this
  rw [this]
  unfold isAdj
  simp only [decide_eq_true_eq]

/-- "the three pairwise matrices are symmetric": with an entry `(i, j, v)` the transposed entry `(j, i, v)`
is stored, with the same value — for every value function, without any assumption on it. -/
theorem nn_symm (dim N : Nat) (R : List (List Nat)) (val : Nat → Nat → Except String β)
    (es : List (Nat × Nat × β)) (h : nnArray dim N R val = .ok es) (i j : Nat) (v : β)
    (hm : (i, j, v) ∈ es) : (j, i, v) ∈ es := by
  obtain ⟨h1, _⟩ := nnArray_ok h
  obtain ⟨bs, hbs, rfl⟩ := (nnEntries_ok_iff _ _ _ _).1 h1
  rw [mem_flatten_blocks hbs] at hm ⊢
  obtain ⟨p, hp, v', hv', hcase⟩ := hm
  refine ⟨p, hp, v', hv', ?_⟩
  rcases hcase with hc | hc
  · simp only [Prod.mk.injEq] at hc
    obtain ⟨rfl, rfl, rfl⟩ := hc
    exact Or.inr rfl
  · simp only [Prod.mk.injEq] at hc
    obtain ⟨rfl, rfl, rfl⟩ := hc
    exact Or.inl rfl

/-- "… with empty diagonal". -/
theorem nn_diag_empty (dim N : Nat) (R : List (List Nat)) (val : Nat → Nat → Except String β)
    (es : List (Nat × Nat × β)) (h : nnArray dim N R val = .ok es) (i : Nat) (v : β) :
    (i, i, v) ∉ es := by
  intro hm
  have : (i, i) ∈ pattern es := by
    unfold pattern
    exact List.mem_map.2 ⟨_, hm, rfl⟩
  exact ((nn_pattern_iff dim N R val es h i i).1 this).1 rfl

/-- No index pair is stored twice, so the sparse matrix' entry at `(i, j)` *is* the stored value
(`coo` would otherwise sum duplicates). -/
theorem nn_nodup (dim N : Nat) (R : List (List Nat)) (val : Nat → Nat → Except String β)
    (es : List (Nat × Nat × β)) (h : nnArray dim N R val = .ok es) : (pattern es).Nodup := by
  obtain ⟨h1, _⟩ := nnArray_ok h
  obtain ⟨bs, hbs, rfl⟩ := (nnEntries_ok_iff _ _ _ _).1 h1
  rw [pattern_flatten_blocks hbs]
  exact nodup_nnPattern dim R

/-- "… on one common pattern": two properties computed from the same regions store the same index pairs
in the same storage order. -/
theorem nn_common_pattern {β₁ β₂ : Type} (dim N : Nat) (R : List (List Nat))
    (val₁ : Nat → Nat → Except String β₁) (val₂ : Nat → Nat → Except String β₂)
    (es₁ : List (Nat × Nat × β₁)) (es₂ : List (Nat × Nat × β₂))
    (h₁ : nnArray dim N R val₁ = .ok es₁) (h₂ : nnArray dim N R val₂ = .ok es₂) :
    pattern es₁ = pattern es₂ := by
  obtain ⟨h1, _⟩ := nnArray_ok h₁
  obtain ⟨h2, _⟩ := nnArray_ok h₂
  obtain ⟨bs1, hbs1, rfl⟩ := (nnEntries_ok_iff _ _ _ _).1 h1
  obtain ⟨bs2, hbs2, rfl⟩ := (nnEntries_ok_iff _ _ _ _).1 h2
  rw [pattern_flatten_blocks hbs1, pattern_flatten_blocks hbs2]

/-- All stored indices fit the `N × N` shape. -/
theorem nn_in_shape (dim N : Nat) (R : List (List Nat)) (val : Nat → Nat → Except String β)
    (es : List (Nat × Nat × β)) (h : nnArray dim N R val = .ok es) :
    ∀ e ∈ es, e.1 < N ∧ e.2.1 < N := (nnArray_ok h).2

/-- The stored value is the selected property of the unordered pair, computed once. -/
theorem nn_value (dim N : Nat) (R : List (List Nat)) (val : Nat → Nat → Except String β)
    (es : List (Nat × Nat × β)) (h : nnArray dim N R val = .ok es) (i j : Nat) (v : β)
    (hm : (i, j, v) ∈ es) : val (min i j) (max i j) = .ok v := by
  obtain ⟨h1, _⟩ := nnArray_ok h
  obtain ⟨bs, hbs, rfl⟩ := (nnEntries_ok_iff _ _ _ _).1 h1
  rw [mem_flatten_blocks hbs] at hm
  obtain ⟨⟨a, b⟩, hp, v', hv', hcase⟩ := hm
  have hab := (mem_adjPairs.1 hp).1
  rcases hcase with hc | hc
  · simp only [Prod.mk.injEq] at hc
    obtain ⟨rfl, rfl, rfl⟩ := hc
    rw [Nat.min_eq_left (Nat.le_of_lt hab), Nat.max_eq_right (Nat.le_of_lt hab)]
    exact hv'
  · simp only [Prod.mk.injEq] at hc
    obtain ⟨rfl, rfl, rfl⟩ := hc
    rw [Nat.min_eq_right (Nat.le_of_lt hab), Nat.max_eq_left (Nat.le_of_lt hab)]
    exact hv'

end nn

section three
variable {K : Type} [Field K] [DecidableEq K]

/-- "the three pairwise matrices are … on one common pattern": adjacency, borders and centre distances of
one grid have identical `(row, col)` sequences. -/
theorem three_matrices_one_pattern (centers nv : List (V3 K)) (nr : List (List Nat))
    (ea : List (Nat × Nat × Bool)) (eb ed : List (Nat × Nat × CosData K))
    (ha : adjacencyArray centers.length nr = .ok ea) (hb : borderArray centers nv nr = .ok eb)
    (hd : distanceArray centers nr = .ok ed) :
    pattern ea = pattern eb ∧ pattern eb = pattern ed :=
  ⟨nn_common_pattern 3 _ nr _ _ ea eb ha hb, nn_common_pattern 3 _ nr _ _ eb ed hb hd⟩

omit [DecidableEq K] in
/-- "the centre-distance entry equals the great-circle angle between the two points": the stored datum is
`(cᵢ·cⱼ, |cᵢ|², |cⱼ|²)` of the two grid points (the code returns `arccos` of the normalised product times
the norm). -/
theorem distance_value (centers : List (V3 K)) (nr : List (List Nat)) (ed : List (Nat × Nat × CosData K))
    (hd : distanceArray centers nr = .ok ed) (i j : Nat) (d : CosData K) (hm : (i, j, d) ∈ ed) :
    ∃ ci cj, centers[i]? = some ci ∧ centers[j]? = some cj ∧ d.dot = dot ci cj ∧
      ((i < j ∧ d.nsq1 = dot ci ci ∧ d.nsq2 = dot cj cj) ∨ (j < i ∧ d.nsq1 = dot cj cj ∧ d.nsq2 = dot ci ci)) := by
  have hv := nn_value 3 _ nr _ ed hd i j d hm
  have hne := ((nn_pattern_iff 3 _ nr _ ed hd i j).1 (List.mem_map.2 ⟨_, hm, rfl⟩)).1
  unfold centerVal at hv
  split at hv
  · rename_i a b ha hb
    cases hv
    rcases Nat.lt_or_gt_of_ne hne with hlt | hlt
    · rw [Nat.min_eq_left (Nat.le_of_lt hlt)] at ha
      rw [Nat.max_eq_right (Nat.le_of_lt hlt)] at hb
      exact ⟨a, b, ha, hb, rfl, Or.inl ⟨hlt, rfl, rfl⟩⟩
    · rw [Nat.min_eq_right (Nat.le_of_lt hlt)] at ha
      rw [Nat.max_eq_left (Nat.le_of_lt hlt)] at hb
      exact ⟨b, a, hb, ha, by simp only [cosData]; exact dot_comm a b, Or.inr ⟨hlt, rfl, rfl⟩⟩
  · cases hv

/- OPEN (full clause "the border entry equals that arc length"): for every stored `(i, j, d)` the two vertices
`va, vb` below are the two END POINTS of `cell i ∩ cell j`, i.e. every common point of the two cells is a
non-negative combination of them.  Needs completeness of scipy's vertex list (external).  Proved: the datum
is that of two different reduced vertices listed by both regions (by `adjacent_shares_arc_partial` they span an
arc that *is* shared); the oracle compares the value with the true arc length for every pair on every run. -/
/-- "the border entry equals that arc length" on the level of the code: the stored datum is
`(va·vb, |va|², |vb|²)` of two *different* reduced vertices that both regions list, and the shared
vertices passed the rank test. -/
theorem border_value_partial (centers nv : List (V3 K)) (nr : List (List Nat)) (eb : List (Nat × Nat × CosData K))
    (hb : borderArray centers nv nr = .ok eb) (i j : Nat) (d : CosData K) (hm : (i, j, d) ∈ eb) :
    ∃ a b va vb, a ≠ b ∧ a ∈ nr.getD i [] ∧ a ∈ nr.getD j [] ∧ b ∈ nr.getD i [] ∧ b ∈ nr.getD j [] ∧
      nv[a]? = some va ∧ nv[b]? = some vb ∧ d = cosData va vb := by
  have hv := nn_value 3 _ nr _ eb hb i j d hm
  have hne := ((nn_pattern_iff 3 _ nr _ eb hb i j).1 (List.mem_map.2 ⟨_, hm, rfl⟩)).1
  -- it suffices to find the two vertices for the ordered pair (min, max)
  suffices hs : ∃ a b va vb, a ≠ b ∧ a ∈ nr.getD (min i j) [] ∧ a ∈ nr.getD (max i j) [] ∧
      b ∈ nr.getD (min i j) [] ∧ b ∈ nr.getD (max i j) [] ∧
      nv[a]? = some va ∧ nv[b]? = some vb ∧ d = cosData va vb by
    obtain ⟨a, b, va, vb, h1, h2, h3, h4, h5, h6, h7, h8⟩ := hs
    rcases Nat.lt_or_gt_of_ne hne with hlt | hlt
    · rw [Nat.min_eq_left (Nat.le_of_lt hlt)] at h2 h4
      rw [Nat.max_eq_right (Nat.le_of_lt hlt)] at h3 h5
      exact ⟨a, b, va, vb, h1, h2, h3, h4, h5, h6, h7, h8⟩
    · rw [Nat.min_eq_right (Nat.le_of_lt hlt)] at h2 h4
      rw [Nat.max_eq_left (Nat.le_of_lt hlt)] at h3 h5
      exact ⟨a, b, va, vb, h1, h3, h2, h5, h4, h6, h7, h8⟩
  generalize min i j = i' at hv ⊢
  generalize max i j = j' at hv ⊢
  obtain ⟨a, b, rest, va, vb, hsh, ga, gb, hd⟩ := borderVal_ok hv
  have hnd := nodup_sharedIdx (nr.getD i' []) (nr.getD j' [])
  rw [hsh] at hnd
  have hab : a ≠ b := by
    rw [List.nodup_cons] at hnd
    intro e
    exact hnd.1 (by rw [e]; exact List.mem_cons_self)
  have ha : a ∈ sharedIdx (nr.getD i' []) (nr.getD j' []) := by rw [hsh]; exact List.mem_cons_self
  have hb' : b ∈ sharedIdx (nr.getD i' []) (nr.getD j' []) := by
    rw [hsh]; exact List.mem_cons_of_mem _ List.mem_cons_self
  rw [mem_sharedIdx] at ha hb'
  exact ⟨a, b, va, vb, hab, ha.1, ha.2, hb'.1, hb'.2, ga, gb, hd⟩

omit [DecidableEq K] in
/-- Exchanging the two vertices changes nothing the returned angle depends on. -/
theorem cosData_symm (a b : V3 K) :
    (cosData b a).dot = (cosData a b).dot ∧ (cosData b a).nsq1 = (cosData a b).nsq2 ∧
      (cosData b a).nsq2 = (cosData a b).nsq1 :=
  ⟨dot_comm b a, rfl, rfl⟩

omit [DecidableEq K] in
/-- The SVD step of `_calculate_borders` (`np.dot(shared_vertices, vh.T)[:, :-1]`): `vh` with rows
`r₁ r₂ r₃` is orthogonal (`vhᵀ·vh = 1`, written out by columns), a vertex `v` becomes
`(v·r₁, v·r₂, v·r₃)`, and the last coordinate is cut off because it vanishes for all shared vertices
(`r₃` is the normal of their plane).  Dot products, hence norms and the angle, are unchanged: the border the
code returns is the angle between the two shared vertices themselves. -/
theorem svd_projection_keeps_dot (r1 r2 r3 v w : V3 K)
    (hxx : r1.x * r1.x + r2.x * r2.x + r3.x * r3.x = 1) (hyy : r1.y * r1.y + r2.y * r2.y + r3.y * r3.y = 1)
    (hzz : r1.z * r1.z + r2.z * r2.z + r3.z * r3.z = 1) (hxy : r1.x * r1.y + r2.x * r2.y + r3.x * r3.y = 0)
    (hxz : r1.x * r1.z + r2.x * r2.z + r3.x * r3.z = 0) (hyz : r1.y * r1.z + r2.y * r2.z + r3.y * r3.z = 0)
    (hv : dot v r3 = 0) (hw : dot w r3 = 0) :
    dot v r1 * dot w r1 + dot v r2 * dot w r2 = dot v w := by
  have key : dot v r1 * dot w r1 + dot v r2 * dot w r2 + dot v r3 * dot w r3 = dot v w := by
    unfold dot
    linear_combination (v.x * w.x) * hxx + (v.y * w.y) * hyy + (v.z * w.z) * hzz +
      (v.x * w.y + v.y * w.x) * hxy + (v.x * w.z + v.z * w.x) * hxz + (v.y * w.z + v.z * w.y) * hyz
  rw [hv, hw] at key
  linear_combination key

end three

example : borderArray (K := Int) [⟨1, 1, 1⟩, ⟨1, -1, -1⟩, ⟨-1, 1, -1⟩, ⟨-1, -1, 1⟩]
    [⟨-1, -1, -1⟩, ⟨-1, 1, 1⟩, ⟨1, -1, 1⟩, ⟨1, 1, -1⟩] [[1, 2, 3], [0, 2, 3], [0, 1, 3], [0, 1, 2]]
    = .ok [(0, 1, ⟨-1, 3, 3⟩), (1, 0, ⟨-1, 3, 3⟩), (0, 2, ⟨-1, 3, 3⟩), (2, 0, ⟨-1, 3, 3⟩),
           (0, 3, ⟨-1, 3, 3⟩), (3, 0, ⟨-1, 3, 3⟩), (1, 2, ⟨-1, 3, 3⟩), (2, 1, ⟨-1, 3, 3⟩),
           (1, 3, ⟨-1, 3, 3⟩), (3, 1, ⟨-1, 3, 3⟩), (2, 3, ⟨-1, 3, 3⟩), (3, 2, ⟨-1, 3, 3⟩)] := by decide +kernel

/-! ## Part 2 — what a cell is, and why two shared certified vertices mean a shared arc -/

section cell
variable {K : Type} [Field K] [LinearOrder K] [IsStrictOrderedRing K]

/-- "the cells … are the nearest-neighbour regions of the grid points on the unit sphere": for generators
of one common norm, `InCell` (largest dot product) is the nearest-neighbour condition in Euclidean —
equivalently great-circle — distance. -/
theorem inCell_iff_nearest (P : List (V3 K)) (c x : V3 K) (hn : ∀ q ∈ P, dot q q = dot c c) :
    InCell P c x ↔ ∀ q ∈ P, dot (vsub x c) (vsub x c) ≤ dot (vsub x q) (vsub x q) := by
  unfold InCell
  constructor
  · intro h q hq
    rw [dot_vsub_self, dot_vsub_self, hn q hq]
    linarith [h q hq]
  · intro h q hq
    have := h q hq
    rw [dot_vsub_self, dot_vsub_self, hn q hq] at this
    linarith

omit [IsStrictOrderedRing K] in
/-- The Boolean certificate the driver evaluates is the proposition the theorems use. -/
theorem certEpsB_iff (P : List (V3 K)) (c v : V3 K) (ε : K) : certEpsB P c v ε = true ↔ CertEps P c v ε := by
  unfold certEpsB CertEps
  simp only [List.all_eq_true, decide_eq_true_eq]

omit [IsStrictOrderedRing K] in
/-- `regionsCertifiedB` says: every vertex a region lists is certified (slack `ε`) for that region's centre. -/
theorem regionsCertifiedB_iff (P nv : List (V3 K)) (nr : List (List Nat)) (ε : K) :
    regionsCertifiedB P nv nr ε = true ↔
      ∀ i, i < nr.length → ∀ a ∈ nr.getD i [], ∃ c v, P[i]? = some c ∧ nv[a]? = some v ∧ CertEps P c v ε := by
  unfold regionsCertifiedB
  simp only [List.all_eq_true, List.mem_range]
  constructor
  · intro h i hi a ha
    have := h i hi a ha
    split at this
    · rename_i c v hc hv
      exact ⟨c, v, hc, hv, (certEpsB_iff P c v ε).1 this⟩
    · cases this
  · intro h i hi a ha
    obtain ⟨c, v, hc, hv, hcert⟩ := h i hi a ha
    rw [hc, hv]
    exact (certEpsB_iff P c v ε).2 hcert

omit [IsStrictOrderedRing K] in
/-- The driver evaluates the certificate with the dot products of each vertex computed once
(`regionsCertifiedFast`); it is the same Boolean, hence the hypothesis of `adjacent_shares_arc_partial`. -/
theorem fast_certificate_eq (P nv : List (V3 K)) (nr : List (List Nat)) (ε : K) :
    regionsCertifiedFast P nv nr ε = regionsCertifiedB P nv nr ε :=
  regionsCertifiedFast_eq P nv nr ε

/-- Cells are cones: normalising a point (a positive scaling) does not leave the cell. -/
theorem inCell_smul (P : List (V3 K)) (c x : V3 K) (t : K) (ht : 0 ≤ t) (h : InCell P c x) :
    InCell P c (smul t x) := by
  intro q hq
  rw [dot_smul_left, dot_smul_left]
  exact mul_le_mul_of_nonneg_left (h q hq) ht

/-- **Certificate soundness with slack.** Two vertices certified for centre `c` up to `ε` certify every
non-negative combination up to `(a + b)·ε`. -/
theorem cert_cone (P : List (V3 K)) (c v₁ v₂ : V3 K) (ε a b : K) (ha : 0 ≤ a) (hb : 0 ≤ b)
    (h₁ : CertEps P c v₁ ε) (h₂ : CertEps P c v₂ ε) :
    CertEps P c (vadd (smul a v₁) (smul b v₂)) ((a + b) * ε) := by
  intro q hq
  rw [dot_vadd_left, dot_vadd_left, dot_smul_left, dot_smul_left, dot_smul_left, dot_smul_left]
  have e1 := mul_le_mul_of_nonneg_left (h₁ q hq) ha
  have e2 := mul_le_mul_of_nonneg_left (h₂ q hq) hb
  linarith

/-- **T2, certificate soundness.** If `v₁` and `v₂` both lie in the cells of `cᵢ` and of `cⱼ`, then every
point `a·v₁ + b·v₂` (`a, b ≥ 0`) — after normalisation, the whole great-circle arc between them — lies in
both cells and is equidistant from the two centres: the two regions share the whole arc. -/
theorem shared_arc_of_two_certified (P : List (V3 K)) (ci cj v₁ v₂ : V3 K) (hi : ci ∈ P) (hj : cj ∈ P)
    (h1i : InCell P ci v₁) (h1j : InCell P cj v₁) (h2i : InCell P ci v₂) (h2j : InCell P cj v₂)
    (a b : K) (ha : 0 ≤ a) (hb : 0 ≤ b) :
    InCell P ci (vadd (smul a v₁) (smul b v₂)) ∧ InCell P cj (vadd (smul a v₁) (smul b v₂)) ∧
      dot (vadd (smul a v₁) (smul b v₂)) ci = dot (vadd (smul a v₁) (smul b v₂)) cj := by
  have key : ∀ c, InCell P c v₁ → InCell P c v₂ → InCell P c (vadd (smul a v₁) (smul b v₂)) := by
    intro c hc1 hc2
    have := cert_cone P c v₁ v₂ 0 a b ha hb (fun q hq => by simpa using hc1 q hq)
      (fun q hq => by simpa using hc2 q hq)
    intro q hq
    simpa using this q hq
  have ki := key ci h1i h2i
  have kj := key cj h1j h2j
  exact ⟨ki, kj, le_antisymm (kj ci hi) (ki cj hj)⟩

omit [IsStrictOrderedRing K] in
/-- A point belongs to two cells exactly when it is equidistant from the two centres and no generator is
closer: the certificate is not only sufficient but is the definition of a shared boundary point. -/
theorem shared_point_iff (P : List (V3 K)) (ci cj x : V3 K) (hi : ci ∈ P) (hj : cj ∈ P) :
    (InCell P ci x ∧ InCell P cj x) ↔ (dot x ci = dot x cj ∧ InCell P ci x) := by
  constructor
  · rintro ⟨h1, h2⟩
    exact ⟨le_antisymm (h2 ci hi) (h1 cj hj), h1⟩
  · rintro ⟨he, h1⟩
    exact ⟨h1, fun q hq => by rw [← he]; exact h1 q hq⟩

/-- "an arc of positive length": two shared vertices that are not parallel span a genuine arc — different
coefficient pairs give different points. -/
theorem arc_nondegenerate (v₁ v₂ : V3 K) (hc : cross v₁ v₂ ≠ ⟨0, 0, 0⟩) (a b a' b' : K)
    (h : vadd (smul a v₁) (smul b v₂) = vadd (smul a' v₁) (smul b' v₂)) : a = a' ∧ b = b' := by
  simp only [vadd, smul, V3.mk.injEq] at h
  obtain ⟨hx, hy, hz⟩ := h
  have hs : ∀ t : K, t * (v₁.y * v₂.z - v₁.z * v₂.y) = 0 → t * (v₁.z * v₂.x - v₁.x * v₂.z) = 0 →
      t * (v₁.x * v₂.y - v₁.y * v₂.x) = 0 → t = 0 := by
    intro t e1 e2 e3
    by_contra ht
    apply hc
    simp only [cross, V3.mk.injEq]
    exact ⟨(mul_eq_zero.1 e1).resolve_left ht, (mul_eq_zero.1 e2).resolve_left ht,
      (mul_eq_zero.1 e3).resolve_left ht⟩
  have ha : a - a' = 0 := by
    apply hs
    · linear_combination v₂.z * hy - v₂.y * hz
    · linear_combination v₂.x * hz - v₂.z * hx
    · linear_combination v₂.y * hx - v₂.x * hy
  have hb : b - b' = 0 := by
    apply hs
    · linear_combination -(v₁.z * hy) + v₁.y * hz
    · linear_combination -(v₁.x * hz) + v₁.z * hx
    · linear_combination -(v₁.y * hx) + v₁.x * hy
  exact ⟨sub_eq_zero.1 ha, sub_eq_zero.1 hb⟩

/-- … and none of the arc's points is the origin, so each can be normalised back onto the sphere. -/
theorem arc_ne_zero (v₁ v₂ : V3 K) (hc : cross v₁ v₂ ≠ ⟨0, 0, 0⟩) (a b : K) (hab : a ≠ 0 ∨ b ≠ 0) :
    vadd (smul a v₁) (smul b v₂) ≠ ⟨0, 0, 0⟩ := by
  intro h
  have h0 : vadd (smul a v₁) (smul b v₂) = vadd (smul 0 v₁) (smul 0 v₂) := by
    rw [h]; simp [vadd, smul]
  obtain ⟨h1, h2⟩ := arc_nondegenerate v₁ v₂ hc a b 0 0 h0
  rcases hab with h' | h'
  · exact h' h1
  · exact h' h2

/- OPEN (full clause "two points are adjacent exactly when their regions share an arc of positive length"):
    (i, j) ∈ pattern ea ↔ ∃ x y, cross x y ≠ 0 ∧ InCell P cᵢ x ∧ InCell P cⱼ x ∧ InCell P cᵢ y ∧ InCell P cⱼ y.
Direction ⇒ is the theorem below (with the certificate as hypothesis; `arc_nondegenerate` for "positive
length" when the two vertices are not parallel, which `border_value_partial`'s rank test guarantees for the
border matrix).  Direction ⇐ (completeness: every true neighbour is reported) needs "scipy/qhull lists every
Voronoi vertex" and is not proved; the per-pair oracle decides it for every pair of every explored grid. -/
/-- **Adjacency reported by the code is sound, given the per-run certificate.**  Assume every reduced
vertex listed in a region is certified for that region's centre up to `ε` (`regionsCertifiedB`, evaluated in
exact arithmetic on scipy's output on every run).  Then for every pair `(i, j)` the adjacency matrix stores
there are two *different* reduced vertices, listed by both regions, such that every point `s·va + t·vb`
(`s, t ≥ 0`) is certified for both centres up to `(s + t)·ε`: both cells contain the whole arc.
With `ε = 0` this is `shared_arc_of_two_certified`. -/
theorem adjacent_shares_arc_partial [DecidableEq K] (P nv : List (V3 K)) (nr : List (List Nat)) (ε : K)
    (hcert : regionsCertifiedB P nv nr ε = true)
    (ea : List (Nat × Nat × Bool)) (ha : adjacencyArray P.length nr = .ok ea) (i j : Nat) (v : Bool)
    (hm : (i, j, v) ∈ ea) :
    ∃ ci cj a b va vb, P[i]? = some ci ∧ P[j]? = some cj ∧ a ≠ b ∧
      a ∈ nr.getD i [] ∧ a ∈ nr.getD j [] ∧ b ∈ nr.getD i [] ∧ b ∈ nr.getD j [] ∧
      nv[a]? = some va ∧ nv[b]? = some vb ∧
      ∀ s t : K, 0 ≤ s → 0 ≤ t →
        CertEps P ci (vadd (smul s va) (smul t vb)) ((s + t) * ε) ∧
        CertEps P cj (vadd (smul s va) (smul t vb)) ((s + t) * ε) := by
  have hp := (nn_pattern_iff 3 _ nr _ ea ha i j).1 (List.mem_map.2 ⟨_, hm, rfl⟩)
  obtain ⟨_, hi, hj, hsh⟩ := hp
  obtain ⟨a, b, hma, hmb, hab⟩ := two_distinct_of_nodup (nodup_sharedIdx _ _) hsh
  have ha' := mem_sharedIdx.1 hma
  have hb' := mem_sharedIdx.1 hmb
  have hc := (regionsCertifiedB_iff P nv nr ε).1 hcert
  obtain ⟨ci, va, hci, hva, hcia⟩ := hc i hi a ha'.1
  obtain ⟨ci', vb, hci', hvb, hcib⟩ := hc i hi b hb'.1
  obtain ⟨cj, va', hcj, hva', hcja⟩ := hc j hj a ha'.2
  obtain ⟨cj', vb', hcj', hvb', hcjb⟩ := hc j hj b hb'.2
  rw [hci] at hci'; cases hci'
  rw [hcj] at hcj'; cases hcj'
  rw [hva] at hva'; cases hva'
  rw [hvb] at hvb'; cases hvb'
  refine ⟨ci, cj, a, b, va, vb, hci, hcj, hab, ha'.1, ha'.2, hb'.1, hb'.2, hva, hvb, ?_⟩
  intro s t hs ht
  exact ⟨cert_cone P ci va vb ε s t hs ht hcia hcib, cert_cone P cj va vb ε s t hs ht hcja hcjb⟩

end cell

/-- non-vacuity of `hn` in `inCell_iff_nearest` and of the hypotheses of `shared_arc_of_two_certified`,
`arc_nondegenerate` on the regular tetrahedron over ℚ: the Voronoi vertices `(-1,1,1)` and `(1,-1,1)` lie in
the cells of `(1,1,1)` and of `(-1,-1,1)`, and are not parallel -/
example :
    let P : List (V3 ℚ) := [⟨1, 1, 1⟩, ⟨1, -1, -1⟩, ⟨-1, 1, -1⟩, ⟨-1, -1, 1⟩]
    (∀ q ∈ P, dot q q = dot (⟨1, 1, 1⟩ : V3 ℚ) ⟨1, 1, 1⟩) ∧
    InCell P ⟨1, 1, 1⟩ ⟨-1, 1, 1⟩ ∧ InCell P ⟨-1, -1, 1⟩ ⟨-1, 1, 1⟩ ∧
    InCell P ⟨1, 1, 1⟩ ⟨1, -1, 1⟩ ∧ InCell P ⟨-1, -1, 1⟩ ⟨1, -1, 1⟩ ∧
    cross (⟨-1, 1, 1⟩ : V3 ℚ) ⟨1, -1, 1⟩ ≠ ⟨0, 0, 0⟩ := by
  simp only [InCell, dot, cross, List.mem_cons, List.not_mem_nil, or_false, forall_eq_or_imp, forall_eq,
    ne_eq, V3.mk.injEq]
  norm_num

/-- Non-vacuity of `adjacent_shares_arc_partial` / `shared_arc_of_two_certified`: the regular tetrahedron (generators
`(±1,±1,±1)` with an even number of minus signs, Voronoi vertices = their negatives) passes the exact
certificate (`ε = 0`), over ℤ so that the kernel evaluates it. -/
example : regionsCertifiedB (K := Int) [⟨1, 1, 1⟩, ⟨1, -1, -1⟩, ⟨-1, 1, -1⟩, ⟨-1, -1, 1⟩]
    [⟨-1, -1, -1⟩, ⟨-1, 1, 1⟩, ⟨1, -1, 1⟩, ⟨1, 1, -1⟩] [[1, 2, 3], [0, 2, 3], [0, 1, 3], [0, 1, 2]] 0 = true := by
  decide +kernel

/-- … and a wrong region list does not: vertex 0 is the antipode of generator 0. -/
example : regionsCertifiedB (K := Int) [⟨1, 1, 1⟩, ⟨1, -1, -1⟩, ⟨-1, 1, -1⟩, ⟨-1, -1, 1⟩]
    [⟨-1, -1, -1⟩, ⟨-1, 1, 1⟩, ⟨1, -1, 1⟩, ⟨1, 1, -1⟩] [[0, 2, 3], [0, 2, 3], [0, 1, 3], [0, 1, 2]] 0 = false := by
  decide +kernel

example : adjacencyArray 4 [[1, 2, 3], [0, 2, 3], [0, 1, 3], [0, 1, 2]] =
    .ok [(0, 1, true), (1, 0, true), (0, 2, true), (2, 0, true), (0, 3, true), (3, 0, true),
         (1, 2, true), (2, 1, true), (1, 3, true), (3, 1, true), (2, 3, true), (3, 2, true)] := by decide +kernel

/-- Degenerate polytope grid: at a cube's face centre four cells meet; diagonal cells share exactly one
reduced vertex and are *not* adjacent, edge cells share two.  (Regions of the 8 cube vertices over the
6 face centres `0..5 = +x,-x,+y,-y,+z,-z`, with the duplicates scipy lists.) -/
example : (adjacencyArray 8 [[0, 2, 4, 4], [0, 2, 5], [0, 3, 4], [0, 0, 3, 5], [1, 2, 4], [1, 2, 5], [1, 3, 4], [1, 3, 5]]).map
    (fun es => (pattern es).length) = .ok 24 := by decide +kernel

end Molgri.C03
