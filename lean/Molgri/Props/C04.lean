/-
C04 — rotation-grid neighbour relations are correct on SO(3) = S³ modulo sign.

Property theorems about `Molgri.HalfFold`, the model of `HalfRotobjVoronoi._calculate_N_N_array`
(`voronoi.py:366-401`): antipode index map, in-place fold, extraction of the upper hemisphere; the face
soundness lemma for nearest-neighbour regions.  The sign-folded angle (`utils.py:239-257`) is in
`Props/C04Real.lean` (it needs `Real.arccos`).

Scope and OPEN clauses (claim: partial, DESIGN §5.4/§7):
* The full-sphere matrix `A` is an *input* of every theorem below.  OPEN (not provable with this toolchain, checked by
  the per-pair geometric oracle of the harness only): `A` is the true neighbour relation / face area of the Voronoi
  diagram of the `2N` points on S³ (completeness of scipy/qhull), and it is symmetric and antipodally symmetric
  (validated on every explored grid).
* OPEN (Float code, outside the kernel): "for every rotation grid with at least four points the border matrix exists
  and its entries are the faces' spherical areas".  Two defects of `RotobjVoronoi._calculate_borders` found by this
  check were repaired in `/repo` (findings F13, F14 of `findings/C04.json`, now "fixed"): the Girard sum of a tiny
  face built from cosines rounded to 7 decimals was negative and aborted the whole matrix with an `AssertionError`
  (randomQ_84…101, every randomQ_N with N ≥ 224 explored; repair a2316f0: angles from tangent vectors), and
  `np.linalg.matrix_rank` of the shared vertices of an ordinary face was 4 at machine precision (repair 35f2358:
  tolerance 1e-9).  `Model/FaceArea.lean` follows the repaired code (`alphaLaw`, `rankTolerance`) and keeps the
  pre-repair angle as `alphaLawRounded`; the witnesses run first on every run.  No theorem is claimed about areas.

Notation: `A` is the full-sphere `2N × 2N` matrix (adjacency, border areas or centre distances; produced on top of
scipy/qhull, an input of the model), `B = foldMat truthy opp A` the matrix after the fold, `opp` the antipode map,
`ent M d i j` the entry `(i, j)`.  Every theorem holds for **every** matrix, every fixed-point-free involution
`opp`, every value type and every truthiness test.
-/
import Molgri.Lemmas.HalfFold
import Mathlib.Algebra.BigOperators.Group.Finset.Basic
import Mathlib.Algebra.Order.BigOperators.Group.Finset
import Mathlib.Algebra.BigOperators.Ring.Finset
import Mathlib.Algebra.Order.Field.Basic

namespace Molgri.C04
open Molgri.HalfFold

variable {α : Type}

/-! ## the fold -/

/-- **Entry formula of the fold.**  After the double loop, the entry in row `i` and column `x` (antipode `k`) is the
    non-zero one of `A i x`, `A i k`; when both are non-zero the one with the **smaller column index** wins
    (in-place overwriting in increasing `j`). -/
theorem fold_entry (truthy : α → Bool) (opp : Nat → Option Nat) {n : Nat} (A : List (List α)) (d : α)
    (hA : Square n A) (hinv : Invol n opp) (i x k : Nat) (hi : i < n) (hx : x < n) (hk : opp x = some k) :
    ent (foldMat truthy opp A) d i x =
      if x < k then
        if truthy (ent A d i x) then ent A d i x
        else if truthy (ent A d i k) then ent A d i k else ent A d i x
      else if truthy (ent A d i k) then ent A d i k else ent A d i x :=
  foldMat_ent truthy opp A d hA hinv i x k hi hx hk

/-- "Rotations i and j are adjacent exactly when the regions of {+q_i,−q_i} and {+q_j,−q_j} share a face":
    the folded entry is non-zero **iff** `i` touches `x` directly or through the antipodal copy of `x`. -/
theorem fold_adjacent_iff (truthy : α → Bool) (opp : Nat → Option Nat) {n : Nat} (A : List (List α)) (d : α)
    (hA : Square n A) (hinv : Invol n opp) (i x k : Nat) (hi : i < n) (hx : x < n) (hk : opp x = some k) :
    truthy (ent (foldMat truthy opp A) d i x) = (truthy (ent A d i x) || truthy (ent A d i k)) := by
  rw [fold_entry truthy opp A d hA hinv i x k hi hx hk]
  by_cases h : x < k <;> simp only [h, if_true, if_false] <;>
    cases h1 : truthy (ent A d i x) <;> cases h2 : truthy (ent A d i k) <;> simp [h1, h2]

/-- "…when the regions touch through exactly one face the border entry is that face's spherical area":
    if exactly one of `A i x`, `A i k` is non-zero, the folded entry is that one. -/
theorem fold_value_single (truthy : α → Bool) (opp : Nat → Option Nat) {n : Nat} (A : List (List α)) (d : α)
    (hA : Square n A) (hinv : Invol n opp) (i x k : Nat) (hi : i < n) (hx : x < n) (hk : opp x = some k) :
    (truthy (ent A d i x) = true → truthy (ent A d i k) = false →
        ent (foldMat truthy opp A) d i x = ent A d i x) ∧
    (truthy (ent A d i x) = false → truthy (ent A d i k) = true →
        ent (foldMat truthy opp A) d i x = ent A d i k) := by
  rw [fold_entry truthy opp A d hA hinv i x k hi hx hk]
  constructor <;> intro h1 h2 <;> by_cases h : x < k <;> simp [h, h1, h2]

/-- Regions touching through two faces (directly and through the antipode, small `N`): the entry of the pair
    member with the smaller index is the one reported, in both columns. -/
theorem fold_value_both (truthy : α → Bool) (opp : Nat → Option Nat) {n : Nat} (A : List (List α)) (d : α)
    (hA : Square n A) (hinv : Invol n opp) (i x k : Nat) (hi : i < n) (hx : x < n) (hk : opp x = some k)
    (h1 : truthy (ent A d i x) = true) (h2 : truthy (ent A d i k) = true) :
    ent (foldMat truthy opp A) d i x = ent A d i (min x k) := by
  rw [fold_entry truthy opp A d hA hinv i x k hi hx hk]
  by_cases h : x < k
  · simp [h, h1, Nat.min_eq_left (Nat.le_of_lt h)]
  · simp [h, h2, Nat.min_eq_right (Nat.le_of_not_lt h)]

/-- Both columns of an antipodal pair carry the same value whenever one of the two is non-zero. -/
theorem fold_pair_equal (truthy : α → Bool) (opp : Nat → Option Nat) {n : Nat} (A : List (List α)) (d : α)
    (hA : Square n A) (hinv : Invol n opp) (i x k : Nat) (hi : i < n) (hx : x < n) (hk : opp x = some k)
    (h : truthy (ent A d i x) = true ∨ truthy (ent A d i k) = true) :
    ent (foldMat truthy opp A) d i x = ent (foldMat truthy opp A) d i k := by
  obtain ⟨k', hk', hkn, hne, hkk⟩ := hinv x hx
  have : k' = k := by rw [hk] at hk'; exact (Option.some.inj hk').symm
  subst this
  rw [fold_entry truthy opp A d hA hinv i x k' hi hx hk, fold_entry truthy opp A d hA hinv i k' x hi hkn hkk]
  by_cases hlt : x < k'
  · have hn : ¬ k' < x := by omega
    cases h1 : truthy (ent A d i x) <;> cases h2 : truthy (ent A d i k') <;> simp_all
  · have hn : k' < x := by omega
    cases h1 : truthy (ent A d i x) <;> cases h2 : truthy (ent A d i k') <;> simp_all

/-- **Symmetry of the folded half matrix, up to an arbitrary relation `R`** (take `R := Eq` for exact symmetry,
    or "equal within ε and zero together" for the float matrices).  `i`, `j` are upper indices: each is the smaller
    member of its antipodal pair (`i < opp i`), which is the layout `G ++ -G` of the code.
    Hypotheses on the full-sphere matrix: symmetric (`hsym`) and cross-symmetric under the antipode map (`hcross`:
    `A a (opp b) ~ A b (opp a)`, a consequence of symmetry + antipodal symmetry). -/
theorem fold_symm_rel (truthy : α → Bool) (R : α → α → Prop) (opp : Nat → Option Nat) {n : Nat}
    (A : List (List α)) (d : α) (hA : Square n A) (hinv : Invol n opp)
    (hR : ∀ x y, R x y → truthy x = truthy y)
    (hsym : ∀ a b, a < n → b < n → R (ent A d a b) (ent A d b a))
    (hcross : ∀ a b ka kb, a < n → b < n → opp a = some ka → opp b = some kb → R (ent A d a kb) (ent A d b ka))
    (i j ki kj : Nat) (hi : i < n) (hj : j < n) (hki : opp i = some ki) (hkj : opp j = some kj)
    (hiU : i < ki) (hjU : j < kj) :
    R (ent (foldMat truthy opp A) d i j) (ent (foldMat truthy opp A) d j i) := by
  rw [fold_entry truthy opp A d hA hinv i j kj hi hj hkj, fold_entry truthy opp A d hA hinv j i ki hj hi hki]
  simp only [hiU, hjU, if_true]
  have s1 := hsym i j hi hj
  have s2 := hcross i j ki kj hi hj hki hkj
  have t1 := hR _ _ s1
  have t2 := hR _ _ s2
  cases h1 : truthy (ent A d i j)
  · rw [h1] at t1
    cases h2 : truthy (ent A d i kj)
    · rw [h2] at t2
      simp [← t1, ← t2, s1]
    · rw [h2] at t2
      simp [← t1, ← t2, s2]
  · rw [h1] at t1
    simp [← t1, s1]

/-- Antipodal symmetry of the full-sphere matrix: the cells of `−q_a`, `−q_b` touch exactly like those of `q_a`, `q_b`. -/
def AntiSymm (opp : Nat → Option Nat) (n : Nat) (A : List (List α)) (d : α) : Prop :=
  ∀ a b ka kb, a < n → b < n → opp a = some ka → opp b = some kb → ent A d ka kb = ent A d a b

/-- **Symmetry.**  If the full-sphere matrix is symmetric and antipodally symmetric, the folded matrix is symmetric
    on the upper indices — for **every** pair, including those that involve index 0 and those adjacent only through
    the antipodal copy. -/
theorem fold_symm (truthy : α → Bool) (opp : Nat → Option Nat) {n : Nat}
    (A : List (List α)) (d : α) (hA : Square n A) (hinv : Invol n opp)
    (hsym : ∀ a b, a < n → b < n → ent A d a b = ent A d b a)
    (hanti : AntiSymm opp n A d)
    (i j ki kj : Nat) (hi : i < n) (hj : j < n) (hki : opp i = some ki) (hkj : opp j = some kj)
    (hiU : i < ki) (hjU : j < kj) :
    ent (foldMat truthy opp A) d i j = ent (foldMat truthy opp A) d j i := by
  apply fold_symm_rel truthy Eq opp A d hA hinv (fun x y h => by rw [h]) hsym ?_ i j ki kj hi hj hki hkj hiU hjU
  intro a b ka kb ha hb hka hkb
  obtain ⟨kb', hkb', hkbn, _, hkbk⟩ := hinv b hb
  have : kb' = kb := by rw [hkb] at hkb'; exact (Option.some.inj hkb').symm
  subst this
  obtain ⟨ka', hka', hkan, _, _⟩ := hinv a ha
  have : ka' = ka := by rw [hka] at hka'; exact (Option.some.inj hka').symm
  subst this
  -- A a (opp b) = A (opp a) b   (antipodal symmetry at (a, opp b))   = A b (opp a)   (symmetry)
  have h1 := hanti a kb' ka' b ha hkbn hka hkbk
  rw [← h1]
  exact hsym ka' b hkan hb

/-- **Empty diagonal.**  The folded diagonal entry of an upper index is zero when the cell neither touches itself
    (`A i i = 0`) nor its own antipodal copy (`A i (opp i) = 0`; validated on every explored grid). -/
theorem fold_diag_empty (truthy : α → Bool) (opp : Nat → Option Nat) {n : Nat} (A : List (List α)) (d : α)
    (hA : Square n A) (hinv : Invol n opp) (i k : Nat) (hi : i < n) (hk : opp i = some k)
    (h0 : truthy (ent A d i i) = false) (h1 : truthy (ent A d i k) = false) :
    truthy (ent (foldMat truthy opp A) d i i) = false := by
  rw [fold_adjacent_iff truthy opp A d hA hinv i i k hi hi hk, h0, h1]; rfl

/-- **One sparsity pattern.**  Two full-sphere matrices (of any two value types, e.g. Boolean adjacency and float
    distances) with the same non-zero pattern fold to matrices with the same non-zero pattern, at every position. -/
theorem fold_common_pattern {β : Type} (t1 : α → Bool) (t2 : β → Bool) (opp : Nat → Option Nat) {n : Nat}
    (A : List (List α)) (A' : List (List β)) (d : α) (d' : β) (hA : Square n A) (hA' : Square n A')
    (hinv : Invol n opp)
    (hpat : ∀ a b, a < n → b < n → t1 (ent A d a b) = t2 (ent A' d' a b))
    (i j : Nat) (hi : i < n) (hj : j < n) :
    t1 (ent (foldMat t1 opp A) d i j) = t2 (ent (foldMat t2 opp A') d' i j) := by
  obtain ⟨k, hk, hkn, _, _⟩ := hinv j hj
  rw [fold_adjacent_iff t1 opp A d hA hinv i j k hi hj hk, fold_adjacent_iff t2 opp A' d' hA' hinv i j k hi hj hk,
    hpat i j hi hj, hpat i k hi hkn]

/-! ## the antipode index map and the upper indices of a double cover -/

/-- With the guard of the code as it is now (`len(opp_ind) > 0`), the antipode table of a double cover `G ++ -G`
    whose rows are separated beyond `np.isclose` is `d ↦ d + N` (`d < N`), `d ↦ d − N` (`d ≥ N`) — **including
    `N ↦ 0`**, the entry the truthiness guard lost. -/
theorem opp_cover (G : List (List Rat)) (hsep : Sep (cover G)) :
    ind2opp .len (cover G) = .ok ((List.range (2 * G.length)).map fun d => some (oppIdx G.length d)) :=
  ind2opp_cover G hsep

/-- That table is a fixed-point-free involution, i.e. the hypothesis `Invol` of the fold theorems holds. -/
theorem opp_cover_invol (N : Nat) :
    Invol (2 * N) (oppFn ((List.range (2 * N)).map fun d => some (oppIdx N d))) :=
  invol_oppIdx N

/-- `_get_upper_indices()` of a double cover whose first half is in the upper hemisphere: `0 … N−1`. -/
theorem upper_cover (G : List (List Rat))
    (hup : ∀ d, d < G.length → qInUpper (G.getD d []) = true ∧ qInUpper (negRow (G.getD d [])) = false) :
    upperIdx (cover G) = List.range G.length :=
  upperIdx_cover G hup

/-- The NaN-masking extraction returns exactly the rows and columns of the available indices (for every square
    matrix and every ascending selection `avail = [i < n | p i]`, which is the form of `_get_upper_indices()`). -/
theorem extract_eq_submatrix {n : Nat} (A : List (List α)) (hA : Square n A) (p : Nat → Bool) :
    extractUpper ((List.range n).filter p) A = submatrix ((List.range n).filter p) A :=
  extractUpper_eq_submatrix A hA p _ rfl

/-- **End to end** (`get_voronoi_adjacency / get_cell_borders / get_center_distances` with the default flags, on
    top of the full-sphere matrix `A`): for a separated double cover `G ++ -G` with `G` in the upper hemisphere,
    the getter returns the `N × N` block `B[0:N, 0:N]` of the folded matrix, and that block is symmetric whenever `A`
    is symmetric and antipodally symmetric. -/
theorem half_matrix_symm (G : List (List Rat)) (A : List (List Rat))
    (hsep : Sep (cover G))
    (hup : ∀ d, d < G.length → qInUpper (G.getD d []) = true ∧ qInUpper (negRow (G.getD d [])) = false)
    (hA : Square (2 * G.length) A)
    (hsym : ∀ a b, a < 2 * G.length → b < 2 * G.length → ent A 0 a b = ent A 0 b a)
    (hanti : ∀ a b, a < 2 * G.length → b < 2 * G.length →
        ent A 0 (oppIdx G.length a) (oppIdx G.length b) = ent A 0 a b) :
    ∃ B : List (List Rat), Square (2 * G.length) B ∧
      halfMatrixQ .len (cover G) A true true = .ok (submatrix (List.range G.length) B) ∧
      ∀ i j, i < G.length → j < G.length → ent B 0 i j = ent B 0 j i := by
  have hinv : Invol (2 * G.length) (oppFn ((List.range (2 * G.length)).map fun d => some (oppIdx G.length d))) :=
    invol_oppIdx G.length
  have key : ∀ x, x < 2 * G.length →
      oppFn ((List.range (2 * G.length)).map fun d => some (oppIdx G.length d)) x = some (oppIdx G.length x) := by
    intro x hx; simp [oppFn, hx]
  refine ⟨foldMat (fun x => decide (x ≠ 0))
    (oppFn ((List.range (2 * G.length)).map fun d => some (oppIdx G.length d))) A, foldMat_square _ _ hA, ?_, ?_⟩
  · unfold halfMatrixQ
    rw [if_pos rfl, ind2opp_cover G hsep, upperIdx_cover G hup]
    have h1 : ((List.range (2 * G.length)).map fun d => some (oppIdx G.length d)).any
        (fun o => o.any fun k => decide (A.length ≤ k)) = false := by
      rw [Bool.eq_false_iff]
      intro h
      rw [List.any_eq_true] at h
      obtain ⟨o, ho, hok⟩ := h
      obtain ⟨x, hx, rfl⟩ := List.mem_map.mp ho
      have hx' := List.mem_range.mp hx
      have : oppIdx G.length x < 2 * G.length := by unfold oppIdx; split <;> omega
      rw [hA.1] at hok
      simp at hok; omega
    have h2 : (List.range G.length).any (fun i => decide (A.length ≤ i)) = false := by
      rw [Bool.eq_false_iff]
      intro h
      rw [List.any_eq_true] at h
      obtain ⟨x, hx, hok⟩ := h
      have hx' := List.mem_range.mp hx
      rw [hA.1] at hok
      simp at hok; omega
    simp only [bind, Except.bind, pure, Except.pure, h1, h2]
    simp only [Bool.false_eq_true, and_false, if_false]
    unfold halfMatrix
    simp only [if_true]
    congr 1
    have hfilt : List.range G.length = (List.range (2 * G.length)).filter (fun i => decide (i < G.length)) := by
      rw [Nat.two_mul, List.range_add, List.filter_append]
      have e1 : (List.range G.length).filter (fun i => decide (i < G.length)) = List.range G.length := by
        rw [List.filter_eq_self]; intro a ha; simpa using List.mem_range.mp ha
      have e2 : ((List.range G.length).map (G.length + ·)).filter (fun i => decide (i < G.length)) = [] := by
        rw [List.filter_eq_nil_iff]; intro a ha
        obtain ⟨b, _, rfl⟩ := List.mem_map.mp ha; simp
      rw [e1, e2, List.append_nil]
    rw [hfilt]
    exact extractUpper_eq_submatrix _ (foldMat_square _ _ hA) _ _ rfl
  · intro i j hi hj
    have hi2 : i < 2 * G.length := by omega
    have hj2 : j < 2 * G.length := by omega
    apply fold_symm (fun x => decide (x ≠ 0)) _ A 0 hA hinv hsym ?_ i j (oppIdx G.length i) (oppIdx G.length j)
      hi2 hj2 (key i hi2) (key j hj2)
    · unfold oppIdx; rw [if_pos hi]; omega
    · unfold oppIdx; rw [if_pos hj]; omega
    · intro a b ka kb ha hb hka hkb
      rw [key a ha] at hka; rw [key b hb] at hkb
      rw [← Option.some.inj hka, ← Option.some.inj hkb]
      exact hanti a b ha hb

/-! ## the guard bug (finding F1) as a regression witness -/

/-- A symmetric and antipodally symmetric `4 × 4` full-sphere matrix (`N = 2`, antipodes `0↔2`, `1↔3`):
    rotation 0 touches rotation 1 only through the antipodal copy (`A 0 3 = A 3 0 = A 1 2 = A 2 1 = 1`). -/
def witnessA : List (List Nat) := [[0, 0, 0, 1], [0, 0, 1, 0], [0, 1, 0, 0], [1, 0, 0, 0]]

/-- What `which_row_is_k(all_grid, -n)` returns for the four rows of that grid. -/
def witnessMatches : List (List Nat) := [[2], [3], [0], [1]]

/-- **F1 (pre-repair guard `if opp_ind:`)**: the index array `[0]` is falsy, so column 2 (the antipode of
    rotation 0) is never folded onto column 0, and the folded matrix is asymmetric in row/column 0:
    `B 0 1 = 1` but `B 1 0 = 0`.  (A concrete witness on the model variant with the truthiness guard.) -/
theorem guard_bug_witness :
    (oppTableOf .truth witnessMatches).map (fun t =>
      let B := foldMat (fun x => decide (x ≠ 0)) (oppFn t) witnessA
      (ent B 0 0 1, ent B 0 1 0)) = .ok (1, 0) := by
  decide +kernel

/-- The same input with the guard of the code as it is now (`len(opp_ind) > 0`): symmetric. -/
theorem guard_len_witness :
    (oppTableOf .len witnessMatches).map (fun t =>
      let B := foldMat (fun x => decide (x ≠ 0)) (oppFn t) witnessA
      (ent B 0 0 1, ent B 0 1 0)) = .ok (1, 1) := by
  decide +kernel

/-- The full-sphere adjacency matrix of the library grid `cube4D_8` (the 16 vertices of the tesseract, `N = 8`),
    as computed by `RotobjVoronoi._calculate_N_N_array` on the pinned tree (data; re-validated on every run by the
    corpus case `cube4D`, `N = 8`). -/
def cube4D8Full : List (List Nat) :=
  [[0, 0, 0, 1, 1, 0, 0, 1, 0, 0, 0, 0, 0, 1, 0, 0],
   [0, 0, 0, 0, 1, 1, 0, 1, 0, 0, 0, 1, 0, 0, 0, 0],
   [0, 0, 0, 1, 1, 1, 0, 0, 0, 0, 0, 0, 0, 0, 0, 1],
   [1, 0, 1, 0, 0, 0, 1, 0, 0, 1, 0, 0, 0, 0, 0, 0],
   [1, 1, 1, 0, 0, 0, 0, 0, 0, 0, 0, 0, 0, 0, 1, 0],
   [0, 1, 1, 0, 0, 0, 1, 0, 1, 0, 0, 0, 0, 0, 0, 0],
   [0, 0, 0, 1, 0, 1, 0, 1, 0, 0, 0, 0, 1, 0, 0, 0],
   [1, 1, 0, 0, 0, 0, 1, 0, 0, 0, 1, 0, 0, 0, 0, 0],
   [0, 0, 0, 0, 0, 1, 0, 0, 0, 0, 0, 1, 1, 0, 0, 1],
   [0, 0, 0, 1, 0, 0, 0, 0, 0, 0, 0, 0, 1, 1, 0, 1],
   [0, 0, 0, 0, 0, 0, 0, 1, 0, 0, 0, 1, 1, 1, 0, 0],
   [0, 1, 0, 0, 0, 0, 0, 0, 1, 0, 1, 0, 0, 0, 1, 0],
   [0, 0, 0, 0, 0, 0, 1, 0, 1, 1, 1, 0, 0, 0, 0, 0],
   [1, 0, 0, 0, 0, 0, 0, 0, 0, 1, 1, 0, 0, 0, 1, 0],
   [0, 0, 0, 0, 1, 0, 0, 0, 0, 0, 0, 1, 0, 1, 0, 1],
   [0, 0, 1, 0, 0, 0, 0, 0, 1, 1, 0, 0, 0, 0, 1, 0]]

/-- `which_row_is_k(all_grid, -n)` for the 16 rows of `cube4D_8` (`d ↦ [d ± 8]`). -/
def cube4D8Matches : List (List Nat) := (List.range 16).map fun d => [oppIdx 8 d]

/-- **F1 on the library grid `cube4D_8`** (the witness named in the finding): with the pre-repair truthiness guard,
    rotation 0 has rotation 5 as a neighbour (through the antipode `5 + 8 = 13`), but rotation 5 does not have
    rotation 0, because column `8 = 0 + 8` is never folded onto column 0. -/
theorem guard_bug_cube4D_8 :
    (oppTableOf .truth cube4D8Matches).map (fun t =>
      let B := foldMat (fun x => decide (x ≠ 0)) (oppFn t) cube4D8Full
      (ent B 0 0 5, ent B 0 5 0)) = .ok (1, 0) := by
  decide +kernel

/-- The same grid with the guard of the code as it is now: the `8 × 8` half matrix is symmetric with empty diagonal. -/
theorem guard_len_cube4D_8 :
    (oppTableOf .len cube4D8Matches).map (fun t =>
      let B := foldMat (fun x => decide (x ≠ 0)) (oppFn t) cube4D8Full
      (List.range 8).all fun i => ent B 0 i i == 0 && (List.range 8).all fun j => ent B 0 i j == ent B 0 j i)
      = .ok true := by
  decide +kernel

/-! ## face soundness: certified common vertices span a common face -/
section Face
variable {K : Type} [Field K] [LinearOrder K] [IsStrictOrderedRing K] {ι κ : Type} [Fintype ι]

/-- Euclidean scalar product. -/
def dot (x y : ι → K) : K := ∑ c, x c * y c

/-- `x` lies in the (cone over the) nearest-neighbour region of the unit centre `P i` among the unit centres `P`:
    no centre has a larger scalar product with `x` (on the unit sphere: none is geodesically closer).
    The region of the *rotation* `i` is `InCell P i ∪ InCell P (i+N)` for the double cover `P`. -/
def InCell (P : κ → ι → K) (i : κ) (x : ι → K) : Prop := ∀ k, dot x (P k) ≤ dot x (P i)

omit [LinearOrder K] [IsStrictOrderedRing K] in
theorem dot_sum_smul {m : Nat} (c : Fin m → K) (v : Fin m → ι → K) (y : ι → K) :
    dot (fun a => ∑ t, c t * v t a) y = ∑ t, c t * dot (v t) y := by
  unfold dot
  simp only [Finset.sum_mul, Finset.mul_sum]
  rw [Finset.sum_comm]
  apply Finset.sum_congr rfl; intro t _
  apply Finset.sum_congr rfl; intro a _
  exact mul_assoc (c t) (v t a) (y a)

/-- **Face soundness.**  If the `m` vertices `v t` that the regions `i` and `j` share are *certified* (each lies in
    both regions), then every non-negative combination of them lies in both regions: the regions share the whole
    spherical polygon spanned by the common vertices (for `m ≥ 3` independent vertices in dimension 4, a
    two-dimensional face).  Completeness (every true neighbour is reported) rests on qhull and is **not** proved. -/
theorem shared_face_of_certified {m : Nat} (P : κ → ι → K) (i j : κ) (v : Fin m → ι → K)
    (hv : ∀ t, InCell P i (v t) ∧ InCell P j (v t)) (c : Fin m → K) (hc : ∀ t, 0 ≤ c t) :
    InCell P i (fun a => ∑ t, c t * v t a) ∧ InCell P j (fun a => ∑ t, c t * v t a) := by
  constructor <;> intro k <;> rw [dot_sum_smul, dot_sum_smul] <;> apply Finset.sum_le_sum <;> intro t _
  · exact mul_le_mul_of_nonneg_left ((hv t).1 k) (hc t)
  · exact mul_le_mul_of_nonneg_left ((hv t).2 k) (hc t)

omit [IsStrictOrderedRing K] in
/-- On a shared face the two centres are equidistant: the face lies in the bisector of `P i` and `P j`. -/
theorem shared_face_bisector (P : κ → ι → K) (i j : κ) (x : ι → K) (hi : InCell P i x) (hj : InCell P j x) :
    dot x (P i) = dot x (P j) :=
  le_antisymm (hj i) (hi j)

end Face

/-! ## non-vacuity of the hypotheses -/

/-- A concrete separated double cover in the upper hemisphere (`N = 2`) and a concrete symmetric, antipodally
    symmetric matrix on it: the hypotheses of `fold_symm` / `half_matrix_symm` are satisfiable, and the model
    returns the symmetric `2 × 2` matrix `[[0,1],[1,0]]` (rotation 0 and 1 adjacent through the antipode only). -/
example :
    halfMatrixQ .len (cover [[1, 0, 0, 0], [0, 1, 0, 0]])
      [[0, 0, 0, 1], [0, 0, 1, 0], [0, 1, 0, 0], [1, 0, 0, 0]] true true
      = .ok [[some 0, some 1], [some 1, some 0]] := by
  decide +kernel

/-- All hypotheses of `half_matrix_symm` at once, on a concrete grid (`N = 2`) and a concrete non-zero matrix, through
    the executable validators that the driver also evaluates on every explored grid. -/
example :
    let G : List (List Rat) := [[1, 0, 0, 0], [0, 1, 0, 0]]
    let A : List (List Rat) := [[0, 0, 0, 1], [0, 0, 1, 0], [0, 1, 0, 0], [1, 0, 0, 0]]
    Sep (cover G) ∧
    (∀ d, d < G.length → qInUpper (G.getD d []) = true ∧ qInUpper (negRow (G.getD d [])) = false) ∧
    Square (2 * G.length) A ∧
    (∀ a b, a < 2 * G.length → b < 2 * G.length → ent A 0 a b = ent A 0 b a) ∧
    (∀ a b, a < 2 * G.length → b < 2 * G.length →
      ent A 0 (oppIdx G.length a) (oppIdx G.length b) = ent A 0 a b) :=
  ⟨sep_of_sepB (by decide +kernel), hup_of_hupB (by decide +kernel), square_of_squareB (by decide +kernel),
   sym_of_symB (by decide +kernel), anti_of_antiB (by decide +kernel)⟩

example : Invol 4 (oppFn [some 2, some 3, some 0, some 1]) := by
  intro j hj
  have : j = 0 ∨ j = 1 ∨ j = 2 ∨ j = 3 := by omega
  rcases this with rfl | rfl | rfl | rfl
  · exact ⟨2, rfl, by omega, by omega, rfl⟩
  · exact ⟨3, rfl, by omega, by omega, rfl⟩
  · exact ⟨0, rfl, by omega, by omega, rfl⟩
  · exact ⟨1, rfl, by omega, by omega, rfl⟩

end Molgri.C04
