/-
C04 — the sign-folded quaternion angle (`utils.py:239-257`, `distance_between_quaternions`) over ℝ:
"the distance entry is the geodesic angle between the two rotations' quaternions minimised over sign".

`quatDistance arccos π x` is the model of the code for two unit quaternions with scalar product `x`:
`theta = arccos(clip(x, -1, 1))`, then `np.where(theta > pi/2, pi - theta, theta)`.
The geodesic angle between unit vectors `q`, `p` on S³ is `arccos (q·p)`; the one between `q` and `−p` is
`arccos (−(q·p))`.
-/
import Molgri.Model.HalfFold
import Mathlib.Analysis.SpecialFunctions.Trigonometric.Inverse

namespace Molgri.C04
open Molgri.HalfFold Real

/-- The fold of an angle `θ ∈ [0, π]` is the smaller of `θ` and `π − θ`. -/
theorem quatDist_eq_min (θ : ℝ) : quatDist π θ = min θ (π - θ) := by
  unfold quatDist
  split
  · rw [min_eq_right]; linarith
  · rw [min_eq_left]; linarith

/-- `np.clip` does not change what `arccos` sees (Mathlib's `arccos` is constant outside `[-1, 1]`). -/
theorem arccos_clip (x : ℝ) : arccos (clip (-1) 1 x) = arccos x := by
  unfold clip
  split
  · rename_i h; rw [arccos_neg_one, arccos_of_le_neg_one (le_of_lt h)]
  · split
    · rename_i h; rw [arccos_one, arccos_eq_zero.mpr (le_of_lt h)]
    · rfl

/-- **Distance entry = geodesic angle minimised over sign.**  For every scalar product `x`, the code's value is
    `min (arccos x) (arccos (−x))`: the smaller of the angles from `q` to `+p` and to `−p`. -/
theorem quatDistance_eq_min_over_sign (x : ℝ) :
    quatDistance arccos π x = min (arccos x) (arccos (-x)) := by
  unfold quatDistance
  rw [arccos_clip, quatDist_eq_min, arccos_neg]

/-- … and that minimum is `arccos |x|` (`arccos |q·p|`, the angle of the rotation `q⁻¹p` halved). -/
theorem quatDistance_eq_arccos_abs (x : ℝ) : quatDistance arccos π x = arccos |x| := by
  rw [quatDistance_eq_min_over_sign]
  by_cases h : 0 ≤ x
  · rw [abs_of_nonneg h, min_eq_left]
    exact arccos_le_arccos (by linarith)
  · have h' : x < 0 := lt_of_not_ge h
    rw [abs_of_neg h', min_eq_right]
    exact arccos_le_arccos (by linarith)

/-- The folded distance is symmetric in the sign of either quaternion and lies in `[0, π/2]`. -/
theorem quatDistance_neg (x : ℝ) : quatDistance arccos π (-x) = quatDistance arccos π x := by
  rw [quatDistance_eq_arccos_abs, quatDistance_eq_arccos_abs, abs_neg]

theorem quatDistance_range (x : ℝ) : 0 ≤ quatDistance arccos π x ∧ quatDistance arccos π x ≤ π / 2 := by
  rw [quatDistance_eq_arccos_abs]
  exact ⟨arccos_nonneg _, arccos_le_pi_div_two.mpr (abs_nonneg x)⟩

/-- Dropping the fold (`π − θ`) is wrong exactly for obtuse pairs: a witness that the `where` matters. -/
theorem fold_needed : arccos (-1 : ℝ) ≠ quatDistance arccos π (-1) := by
  rw [quatDistance_eq_arccos_abs, arccos_neg_one, abs_neg, abs_one, arccos_one]
  exact pi_ne_zero

end Molgri.C04
