/-
C05 — spherical-shell position cells tile the ball: exact volumes, faces, distances.

Property theorems about `Molgri.PositionGrid` (the model of `translations.get_increments / get_between_radii`,
`PositionGrid.get_all_position_volumes`, `PositionGrid._get_N_N_position_array` and of the pieces of `scipy.sparse`
they use).  Quantifiers: every linearly ordered field `K` (so `ℚ`, where the driver computes, and `ℝ`, where `π`
lives), every number of directions `n_o`, every radial grid `r` that is non-empty, positive and strictly increasing
(`ValidRadii`, arbitrary unequal increments, any length `T ≥ 1`; the clauses that need `T ≥ 2` say so; what the code
*accepts* is slightly more, `AcceptedRadii`: the first radius may be zero, fix cae935f — the entry formulas hold there
too, only positivity / "exactly when adjacent" need `ValidRadii`), every list of
unit-sphere areas of length `n_o`, every dense unit-sphere matrix `neig`, every cell and every pair of cells.

Cells are numbered `p = k * n_o + o` (shell `k`, direction `o < n_o`), both 0-based; every `p < n_o * T` is of this
form (`cell_decomposition`).  `Rab r k` is the boundary above shell `k` (`R_{k+1}` of the statement's 1-based
numbering), `Rbe r k` the boundary below it.
-/
import Molgri.Lemmas.PositionGrid
import Mathlib.Algebra.BigOperators.Group.Finset.Basic
import Mathlib.Algebra.BigOperators.Ring.Finset
import Mathlib.Algebra.BigOperators.Field

set_option linter.unusedSectionVars false

namespace Molgri.C05
open Molgri.PositionGrid

variable {K : Type} [Field K] [LinearOrder K] [IsStrictOrderedRing K]

/-- Every cell index below `n_o * T` is `k * n_o + o` with `k < T`, `o < n_o` (so the theorems below, stated for
`k * n_o + o`, speak about every cell and every pair of cells). -/
theorem cell_decomposition (n_o T p : Nat) (hp : p < n_o * T) :
    p = (p / n_o) * n_o + p % n_o ∧ p / n_o < T ∧ p % n_o < n_o := by
  have hn : 0 < n_o := by
    rcases Nat.eq_zero_or_pos n_o with h | h
    · subst h; simp at hp
    · exact h
  refine ⟨by rw [Nat.mul_comm]; exact (Nat.div_add_mod p n_o).symm, ?_, Nat.mod_lt _ hn⟩
  exact Nat.div_lt_of_lt_mul hp

/-! ### radial grid → shell boundaries -/

/-- Radial grids the code does not accept (empty, negative first radius, not strictly increasing) are rejected:
`get_increments` raises (`IndexError` for the empty grid, its `assert` otherwise), and with it every getter.
(A zero first radius is accepted, see `zero_first_radius`.) -/
theorem invalid_radii_rejected (r : List K) (h : ¬ AcceptedRadii r) (sel : Sel) (n_o : Nat) (area : List K)
    (neig : Nat → Nat → K) :
    ∃ e, (e = "IndexError" ∨ e = "AssertionError") ∧ getBetweenRadii r = .error e ∧ volumes r area = .error e
      ∧ nnPosition sel n_o r area neig = .error e := by
  rcases getIncrements_error_of_not_accepted h with h1 | h1
  · refine ⟨"IndexError", Or.inl rfl, ?_, ?_, ?_⟩
    · unfold getBetweenRadii; rw [h1]; rfl
    · unfold volumes getBetweenRadii; rw [h1]; rfl
    · unfold nnPosition getBetweenRadii; rw [h1]; rfl
  · refine ⟨"AssertionError", Or.inr rfl, ?_, ?_, ?_⟩
    · unfold getBetweenRadii; rw [h1]; rfl
    · unfold volumes getBetweenRadii; rw [h1]; rfl
    · unfold nnPosition getBetweenRadii; rw [h1]; rfl

/-- The radial grids of the property are accepted by the code. -/
theorem valid_radii_accepted (r : List K) (h : ValidRadii r) : AcceptedRadii r := h.accepted

/-- What the constructor does with the numbers a radial text means (`np.sort`, `assert >= 0`, `* 10`): the stored
radii are the given numbers in ascending order, in Å; a negative number is rejected.  (Reading the text itself is
C16's subject.) -/
theorem parsed_radii (xs : List K) :
    (∀ r, parsedRadii xs = .ok r →
      r.Pairwise (· ≤ ·) ∧ r.Perm (xs.map (· * 10)) ∧ ∀ x ∈ xs, 0 ≤ x) ∧
    ((∃ x ∈ xs, x < 0) → parsedRadii xs = .error "AssertionError") := by
  have hperm := List.mergeSort_perm xs (fun a b => !decide (b < a))
  have hsorted : (xs.mergeSort (fun a b => !decide (b < a))).Pairwise (fun a b => (!decide (b < a)) = true) := by
    apply List.pairwise_mergeSort
    · intro a b c h1 h2
      simp only [Bool.not_eq_eq_eq_not, Bool.not_true, decide_eq_false_iff_not, not_lt] at h1 h2 ⊢
      exact le_trans h1 h2
    · intro a b
      simp only [Bool.or_eq_true, Bool.not_eq_eq_eq_not, Bool.not_true, decide_eq_false_iff_not, not_lt]
      exact le_total a b
  constructor
  · intro r hr
    unfold parsedRadii at hr
    simp only at hr
    split at hr
    · simp [throw, throwThe, MonadExceptOf.throw] at hr
    · rename_i hneg
      simp only [pure, Except.pure, Except.ok.injEq] at hr
      subst hr
      refine ⟨?_, hperm.map _, ?_⟩
      · rw [List.pairwise_map]
        refine hsorted.imp ?_
        intro a b h
        simp only [Bool.not_eq_eq_eq_not, Bool.not_true, decide_eq_false_iff_not, not_lt] at h
        exact mul_le_mul_of_nonneg_right h (by norm_num)
      · intro x hx
        have hx' := hperm.mem_iff.mpr hx
        simp only [List.any_eq_true, decide_eq_true_eq, not_exists, not_and, not_lt] at hneg
        exact hneg x hx'
  · rintro ⟨x, hx, hlt⟩
    unfold parsedRadii
    simp only
    have : (xs.mergeSort (fun a b => !decide (b < a))).any (fun x => decide (x < 0)) = true := by
      rw [List.any_eq_true]
      exact ⟨x, hperm.mem_iff.mpr hx, decide_eq_true hlt⟩
    rw [if_pos this]
    rfl

/-- On an accepted (in particular: a valid) radial grid `get_between_radii` returns one boundary per radius. -/
theorem between_ok (r : List K) (h : AcceptedRadii r) :
    getBetweenRadii r = .ok (betweenOf r) ∧ (betweenOf r).length = r.length :=
  ⟨getBetweenRadii_ok h, betweenOf_length r⟩

/-- "shell boundaries R_k lie midway between consecutive radii" -/
theorem boundary_midway (r : List K) (k : Nat) (hk : k + 1 < r.length) :
    Rab r k = (rad r k + rad r (k + 1)) / 2 :=
  between_inner r k hk

/-- "the last boundary extends half the last increment" (`T ≥ 2`, `k + 2 = T`). -/
theorem boundary_last (r : List K) (k : Nat) (hk : k + 2 = r.length) :
    Rab r (k + 1) = rad r (k + 1) + (rad r (k + 1) - rad r k) / 2 :=
  between_last r k hk

/-- "a single radius r gives R = 2r" -/
theorem boundary_single (a : K) : betweenOf [a] = [2 * a] :=
  between_single a

/-- "the first shell starts at the origin"; every other shell starts where the one below ends. -/
theorem boundary_below (r : List K) :
    Rbe r 0 = 0 ∧ ∀ k, k + 1 < r.length → Rbe r (k + 1) = Rab r k :=
  ⟨Rbe_zero r, fun k hk => Rbe_succ r k hk⟩

/-- Radii and boundaries interleave, `0 ≤ R_{k-1} < r_k < R_k` (`< r_{k+1}`), so every shell has positive thickness. -/
theorem boundaries_interleave (r : List K) (h : ValidRadii r) (k : Nat) (hk : k < r.length) :
    0 ≤ Rbe r k ∧ Rbe r k < rad r k ∧ rad r k < Rab r k ∧ (k + 1 < r.length → Rab r k < rad r (k + 1)) := by
  refine ⟨Rbe_nonneg h k hk, ?_, rad_lt_Rab h k hk, fun h1 => Rab_lt_rad_succ h k h1⟩
  cases k with
  | zero => rw [Rbe_zero]; exact h.pos
  | succ k => rw [Rbe_succ r k hk]; exact Rab_lt_rad_succ h k hk

/-! ### volumes -/

/-- "cell (shell k, direction o) has volume area_o*(R_k^3-R_{k-1}^3)/3" -/
theorem volume_entry (r area : List K) (h : AcceptedRadii r) (k o : Nat) (hk : k < r.length) (ho : o < area.length) :
    ∃ V, volumes r area = .ok V ∧ V.length = r.length * area.length ∧
      V.getD (k * area.length + o) 0 = area.getD o 0 * (Rab r k ^ 3 - Rbe r k ^ 3) / 3 := by
  refine ⟨volumesOf r area, volumes_ok h area, volumesOf_length r area h.nonempty, ?_⟩
  rw [volumesOf_getD r area k o hk ho]
  unfold cube
  ring

/-- "shell volumes sum to the shell's volume": `Σ_o V(k,o) = (Σ_o area_o)·(R_k³ − R_{k-1}³)/3`. -/
theorem shell_volume_sum (r area : List K) (k : Nat) (hk : k < r.length) :
    ∑ o ∈ Finset.range area.length, (volumesOf r area).getD (k * area.length + o) 0
      = (∑ o ∈ Finset.range area.length, area.getD o 0) * (Rab r k ^ 3 - Rbe r k ^ 3) / 3 := by
  rw [Finset.sum_mul, Finset.sum_div]
  apply Finset.sum_congr rfl
  intro o ho
  rw [volumesOf_getD r area k o hk (Finset.mem_range.mp ho)]
  unfold cube
  ring

/-- "all volumes [sum] to (4/3)*pi*R_T^3", for any total unit-sphere area `A = Σ_o area_o`: the sum over all shells
and directions telescopes to `A·R_T³/3`. -/
theorem total_volume (r area : List K) (hr : 0 < r.length) :
    ∑ k ∈ Finset.range r.length, ∑ o ∈ Finset.range area.length, (volumesOf r area).getD (k * area.length + o) 0
      = (∑ o ∈ Finset.range area.length, area.getD o 0) * Rab r (r.length - 1) ^ 3 / 3 := by
  have h1 : ∀ k ∈ Finset.range r.length,
      ∑ o ∈ Finset.range area.length, (volumesOf r area).getD (k * area.length + o) 0
        = (∑ o ∈ Finset.range area.length, area.getD o 0) / 3 * (bnd r (k + 1) ^ 3 - bnd r k ^ 3) := by
    intro k hk
    rw [shell_volume_sum r area k (Finset.mem_range.mp hk), bnd_above, bnd_below r k (Finset.mem_range.mp hk)]
    ring
  rw [Finset.sum_congr rfl h1, ← Finset.mul_sum, Finset.sum_range_sub (fun k => bnd r k ^ 3)]
  have h2 : bnd r r.length = Rab r (r.length - 1) := by
    unfold bnd; rw [if_neg (by omega)]
  have h3 : bnd r 0 = 0 := rfl
  rw [h2, h3]
  ring

/-- The sum over shells and directions is the sum over all cell indices `p < T·n_o`. -/
theorem sum_cells_eq (f : Nat → K) (T n : Nat) :
    ∑ p ∈ Finset.range (T * n), f p = ∑ k ∈ Finset.range T, ∑ o ∈ Finset.range n, f (k * n + o) := by
  induction T with
  | zero => simp
  | succ T ih => rw [Nat.succ_mul, Finset.sum_range_add, ih, Finset.sum_range_succ]

/-- "all volumes to (4/3)*pi*R_T^3": when the unit-sphere areas sum to `4π` (`pi` any element of the field; `π` for
`K = ℝ`), the sum over *all* cells is `4/3·π·R_T³`. -/
theorem total_volume_sphere (r area : List K) (pi : K) (hr : 0 < r.length)
    (hA : ∑ o ∈ Finset.range area.length, area.getD o 0 = 4 * pi) :
    ∑ p ∈ Finset.range (r.length * area.length), (volumesOf r area).getD p 0
      = 4 / 3 * pi * Rab r (r.length - 1) ^ 3 := by
  rw [sum_cells_eq, total_volume r area hr, hA]
  ring

/-- The shell's own volume: when the areas sum to `4π`, shell `k` holds `4/3·π·(R_k³ − R_{k-1}³)`. -/
theorem shell_volume_sphere (r area : List K) (pi : K) (k : Nat) (hk : k < r.length)
    (hA : ∑ o ∈ Finset.range area.length, area.getD o 0 = 4 * pi) :
    ∑ o ∈ Finset.range area.length, (volumesOf r area).getD (k * area.length + o) 0
      = 4 / 3 * pi * (Rab r k ^ 3 - Rbe r k ^ 3) := by
  rw [shell_volume_sum r area k hk, hA]
  ring

/-! ### faces, distances, adjacency: every entry -/

/-- On an accepted (in particular: a valid) radial grid each of the three getters returns the matrix `nnOfSel`, which stores exactly its
non-zero entries (no explicit zeros, nothing outside `n_o·T × n_o·T`). -/
theorem matrix_ok (sel : Sel) (n_o : Nat) (r area : List K) (neig : Nat → Nat → K) (h : AcceptedRadii r)
    (harea : area.length = n_o) :
    nnPosition sel n_o r area neig = .ok (nnOfSel sel n_o r area neig) ∧
    ∀ p q v, (p, q, v) ∈ nnOfSel sel n_o r area neig ↔
      p < n_o * r.length ∧ q < n_o * r.length ∧ v = dense (nnOfSel sel n_o r area neig) p q ∧ v ≠ 0 :=
  ⟨nnPosition_ok h sel n_o area neig harea, fun p q v => mem_nnOf _ _ _ _ _ p q v⟩

/-- The returned matrix is in canonical form: every position is stored at most once (no duplicate entries). -/
theorem matrix_no_duplicates (sel : Sel) (n_o : Nat) (r area : List K) (neig : Nat → Nat → K) :
    ((nnOfSel sel n_o r area neig).map (fun e => (e.1, e.2.1))).Nodup :=
  canon_nodup _ _

/-- **Borders, every pair of cells.**  "It borders the cell radially above through area_o*R_k^2 and same-shell cells o'
through arc(o,o')*(R_k^2-R_{k-1}^2)/2 … and has no other neighbours." -/
theorem border_entry (n_o : Nat) (r area : List K) (arc : Nat → Nat → K) (harea : area.length = n_o)
    (k k' o o' : Nat) (hk : k < r.length) (hk' : k' < r.length) (ho : o < n_o) (ho' : o' < n_o) :
    dense (nnOfSel .borderLen n_o r area arc) (k * n_o + o) (k' * n_o + o')
      = if k' = k + 1 ∧ o' = o then area.getD o 0 * Rab r k ^ 2
        else if k = k' + 1 ∧ o = o' then area.getD o' 0 * Rab r k' ^ 2
        else if k = k' then arc o o' * (Rab r k ^ 2 - Rbe r k ^ 2) / 2
        else 0 := by
  rw [dense_nnOfSel .borderLen n_o r area arc harea k k' o o' hk hk' ho ho']
  simp only [diagVal, multVal, PositionGrid.sq]
  split
  · ring
  · split
    · ring
    · split
      · ring
      · rfl

/-- **Centre distances, every pair of cells.**  "with centre distances r_{k+1}-r_k and r_k*angle(o,o')" -/
theorem distance_entry (n_o : Nat) (r area : List K) (ang : Nat → Nat → K) (harea : area.length = n_o)
    (k k' o o' : Nat) (hk : k < r.length) (hk' : k' < r.length) (ho : o < n_o) (ho' : o' < n_o) :
    dense (nnOfSel .centerDistances n_o r area ang) (k * n_o + o) (k' * n_o + o')
      = if k' = k + 1 ∧ o' = o then rad r (k + 1) - rad r k
        else if k = k' + 1 ∧ o = o' then rad r (k' + 1) - rad r k'
        else if k = k' then rad r k * ang o o'
        else 0 := by
  rw [dense_nnOfSel .centerDistances n_o r area ang harea k k' o o' hk hk' ho ho']
  simp only [diagVal, multVal]
  split
  · rfl
  · split
    · rfl
    · split
      · ring
      · rfl

/-- **Adjacency, every pair of cells** (`adj` is the dense 0/1 unit-sphere adjacency). -/
theorem adjacency_entry (n_o : Nat) (r area : List K) (adj : Nat → Nat → K) (harea : area.length = n_o)
    (k k' o o' : Nat) (hk : k < r.length) (hk' : k' < r.length) (ho : o < n_o) (ho' : o' < n_o) :
    dense (nnOfSel .adjacency n_o r area adj) (k * n_o + o) (k' * n_o + o')
      = if k' = k + 1 ∧ o' = o then 1
        else if k = k' + 1 ∧ o = o' then 1
        else if k = k' then adj o o'
        else 0 := by
  rw [dense_nnOfSel .adjacency n_o r area adj harea k k' o o' hk hk' ho ho']
  simp only [diagVal, multVal, mul_one]

/-- "exactly when o and o' are adjacent on the sphere … and has no other neighbours": two cells are adjacent in the
position grid iff they are on the same ray in consecutive shells, or in the same shell with adjacent directions. -/
theorem adjacency_iff (n_o : Nat) (r area : List K) (adj : Nat → Nat → K) (harea : area.length = n_o)
    (k k' o o' : Nat) (hk : k < r.length) (hk' : k' < r.length) (ho : o < n_o) (ho' : o' < n_o) :
    dense (nnOfSel .adjacency n_o r area adj) (k * n_o + o) (k' * n_o + o') ≠ 0 ↔
      (o = o' ∧ (k' = k + 1 ∨ k = k' + 1)) ∨ (k = k' ∧ adj o o' ≠ 0) := by
  rw [adjacency_entry n_o r area adj harea k k' o o' hk hk' ho ho']
  by_cases h1 : k' = k + 1 ∧ o' = o
  · rw [if_pos h1]; obtain ⟨rfl, rfl⟩ := h1
    simp
  · rw [if_neg h1]
    by_cases h2 : k = k' + 1 ∧ o = o'
    · rw [if_pos h2]; obtain ⟨rfl, rfl⟩ := h2
      simp
    · rw [if_neg h2]
      by_cases h3 : k = k'
      · subst h3; rw [if_pos rfl]
        constructor
        · intro h; exact Or.inr ⟨rfl, h⟩
        · rintro (⟨_, h | h⟩ | ⟨_, h⟩)
          · omega
          · omega
          · exact h
      · rw [if_neg h3]
        constructor
        · intro h; exact absurd rfl h
        · rintro (⟨rfl, h | h⟩ | ⟨h, _⟩)
          · exact absurd ⟨h, rfl⟩ h1
          · exact absurd ⟨h, rfl⟩ h2
          · exact absurd h h3

/-- The face and distance matrices have the neighbour pattern of the adjacency matrix — "exactly when o and o' are
adjacent" — provided the unit-sphere inputs are non-degenerate on exactly the adjacent pairs (positive areas, and
`arc o o' ≠ 0 ↔ adj o o' ≠ 0`, resp. for the angles; this is what C03 establishes about the direction grid and what
the check validates on every run). -/
theorem border_nonzero_iff (n_o : Nat) (r area : List K) (arc adj : Nat → Nat → K) (h : ValidRadii r)
    (harea : area.length = n_o) (hpos : ∀ o, o < n_o → area.getD o 0 ≠ 0)
    (hpat : ∀ o o', o < n_o → o' < n_o → (arc o o' ≠ 0 ↔ adj o o' ≠ 0))
    (k k' o o' : Nat) (hk : k < r.length) (hk' : k' < r.length) (ho : o < n_o) (ho' : o' < n_o) :
    dense (nnOfSel .borderLen n_o r area arc) (k * n_o + o) (k' * n_o + o') ≠ 0 ↔
      dense (nnOfSel .adjacency n_o r area adj) (k * n_o + o) (k' * n_o + o') ≠ 0 := by
  rw [border_entry n_o r area arc harea k k' o o' hk hk' ho ho',
    adjacency_entry n_o r area adj harea k k' o o' hk hk' ho ho']
  by_cases h1 : k' = k + 1 ∧ o' = o
  · rw [if_pos h1, if_pos h1]
    have := Rab_pos h k hk
    exact ⟨fun _ => one_ne_zero, fun _ => mul_ne_zero (hpos o ho) (pow_ne_zero 2 (ne_of_gt this))⟩
  · rw [if_neg h1, if_neg h1]
    by_cases h2 : k = k' + 1 ∧ o = o'
    · rw [if_pos h2, if_pos h2]
      have := Rab_pos h k' hk'
      exact ⟨fun _ => one_ne_zero, fun _ => mul_ne_zero (hpos o' ho') (pow_ne_zero 2 (ne_of_gt this))⟩
    · rw [if_neg h2, if_neg h2]
      by_cases h3 : k = k'
      · rw [if_pos h3, if_pos h3, ← hpat o o' ho ho']
        have hf := shell_factor_pos h k hk
        unfold PositionGrid.sq at hf
        have hne : Rab r k ^ 2 - Rbe r k ^ 2 ≠ 0 := by
          intro h0
          have : Rab r k * Rab r k / 2 - Rbe r k * Rbe r k / 2 = (Rab r k ^ 2 - Rbe r k ^ 2) / 2 := by ring
          rw [this, h0] at hf; simp at hf
        constructor
        · intro hh h0; apply hh; rw [h0]; ring
        · intro hh h0
          have h2 : (2 : K) ≠ 0 := two_ne_zero
          rw [div_eq_zero_iff] at h0
          rcases h0 with h0 | h0
          · rcases mul_eq_zero.mp h0 with h0 | h0
            · exact hh h0
            · exact hne h0
          · exact h2 h0
      · rw [if_neg h3, if_neg h3]

theorem distance_nonzero_iff (n_o : Nat) (r area : List K) (ang adj : Nat → Nat → K) (h : ValidRadii r)
    (harea : area.length = n_o)
    (hpat : ∀ o o', o < n_o → o' < n_o → (ang o o' ≠ 0 ↔ adj o o' ≠ 0))
    (k k' o o' : Nat) (hk : k < r.length) (hk' : k' < r.length) (ho : o < n_o) (ho' : o' < n_o) :
    dense (nnOfSel .centerDistances n_o r area ang) (k * n_o + o) (k' * n_o + o') ≠ 0 ↔
      dense (nnOfSel .adjacency n_o r area adj) (k * n_o + o) (k' * n_o + o') ≠ 0 := by
  rw [distance_entry n_o r area ang harea k k' o o' hk hk' ho ho',
    adjacency_entry n_o r area adj harea k k' o o' hk hk' ho ho']
  by_cases h1 : k' = k + 1 ∧ o' = o
  · rw [if_pos h1, if_pos h1]
    have := h.incr k (by omega)
    exact ⟨fun _ => one_ne_zero, fun _ => ne_of_gt (sub_pos.mpr this)⟩
  · rw [if_neg h1, if_neg h1]
    by_cases h2 : k = k' + 1 ∧ o = o'
    · rw [if_pos h2, if_pos h2]
      have := h.incr k' (by omega)
      exact ⟨fun _ => one_ne_zero, fun _ => ne_of_gt (sub_pos.mpr this)⟩
    · rw [if_neg h2, if_neg h2]
      by_cases h3 : k = k'
      · rw [if_pos h3, if_pos h3, ← hpat o o' ho ho']
        have := ne_of_gt (h.all_pos k hk)
        exact ⟨fun hh => (mul_ne_zero_iff.mp hh).2, fun hh => mul_ne_zero this hh⟩
      · rw [if_neg h3, if_neg h3]

/-- A zero first radius (accepted by the code, outside the property's quantifier): the getters return the same
formulas (`between_ok`, `volume_entry`, `matrix_ok`, the `…_entry` theorems need no positivity); the first boundary is
`r_1/2`; and the same-shell centre distances of the innermost shell are `0·angle = 0`, so the distance matrix stores
no entry there (its pattern is then smaller than the adjacency pattern). -/
theorem zero_first_radius (n_o : Nat) (r area : List K) (ang : Nat → Nat → K) (h : AcceptedRadii r) (h0 : rad r 0 = 0)
    (harea : area.length = n_o) (o o' : Nat) (ho : o < n_o) (ho' : o' < n_o) :
    nnPosition .centerDistances n_o r area ang = .ok (nnOfSel .centerDistances n_o r area ang) ∧
    (1 < r.length → Rab r 0 = rad r 1 / 2) ∧
    dense (nnOfSel .centerDistances n_o r area ang) (0 * n_o + o) (0 * n_o + o') = 0 ∧
    ∀ v, (0 * n_o + o, 0 * n_o + o', v) ∉ nnOfSel .centerDistances n_o r area ang := by
  have hd : dense (nnOfSel .centerDistances n_o r area ang) (0 * n_o + o) (0 * n_o + o') = 0 := by
    rw [distance_entry n_o r area ang harea 0 0 o o' h.nonempty h.nonempty ho ho']
    have a : ¬ ((0 : Nat) = 0 + 1 ∧ o' = o) := by omega
    have b : ¬ ((0 : Nat) = 0 + 1 ∧ o = o') := by omega
    rw [if_neg a, if_neg b, if_pos rfl, h0, zero_mul]
  refine ⟨nnPosition_ok h .centerDistances n_o area ang harea, ?_, hd, ?_⟩
  · intro h1
    rw [boundary_midway r 0 h1, h0, zero_add]
  · intro v hv
    obtain ⟨_, _, hv1, hv2⟩ := (mem_nnOf _ _ _ _ _ _ _ v).mp hv
    exact hv2 (hv1.trans hd)

/-- Symmetric unit-sphere input gives symmetric position-grid matrices (all three). -/
theorem matrix_symmetric (sel : Sel) (n_o : Nat) (r area : List K) (neig : Nat → Nat → K) (harea : area.length = n_o)
    (hsym : ∀ o o', neig o o' = neig o' o)
    (k k' o o' : Nat) (hk : k < r.length) (hk' : k' < r.length) (ho : o < n_o) (ho' : o' < n_o) :
    dense (nnOfSel sel n_o r area neig) (k * n_o + o) (k' * n_o + o')
      = dense (nnOfSel sel n_o r area neig) (k' * n_o + o') (k * n_o + o) := by
  rw [dense_nnOfSel sel n_o r area neig harea k k' o o' hk hk' ho ho',
    dense_nnOfSel sel n_o r area neig harea k' k o' o hk' hk ho' ho]
  by_cases h1 : k' = k + 1 ∧ o' = o
  · obtain ⟨rfl, rfl⟩ := h1
    have a : ¬ (k = k + 1 + 1) := by omega
    simp [a]
  · by_cases h2 : k = k' + 1 ∧ o = o'
    · obtain ⟨rfl, rfl⟩ := h2
      have a : ¬ (k' = k' + 1 + 1) := by omega
      simp [a]
    · rw [if_neg h1, if_neg h2, if_neg h2, if_neg h1]
      by_cases h3 : k = k'
      · subst h3; rw [if_pos rfl, if_pos rfl, hsym]
      · rw [if_neg h3, if_neg (fun h => h3 h.symm)]

/-- "[Hence] radial faces [sum] to 4*pi*R_k^2": the faces between shell `k` and shell `k+1` sum to `(Σ_o area_o)·R_k²`. -/
theorem radial_face_sum (n_o : Nat) (r area : List K) (arc : Nat → Nat → K) (harea : area.length = n_o)
    (k : Nat) (hk : k + 1 < r.length) :
    ∑ o ∈ Finset.range n_o, dense (nnOfSel .borderLen n_o r area arc) (k * n_o + o) ((k + 1) * n_o + o)
      = (∑ o ∈ Finset.range n_o, area.getD o 0) * Rab r k ^ 2 := by
  rw [Finset.sum_mul]
  apply Finset.sum_congr rfl
  intro o ho
  have ho := Finset.mem_range.mp ho
  rw [border_entry n_o r area arc harea k (k + 1) o o (by omega) hk ho ho, if_pos ⟨rfl, rfl⟩]

theorem radial_face_sum_sphere (n_o : Nat) (r area : List K) (arc : Nat → Nat → K) (pi : K) (harea : area.length = n_o)
    (hA : ∑ o ∈ Finset.range n_o, area.getD o 0 = 4 * pi) (k : Nat) (hk : k + 1 < r.length) :
    ∑ o ∈ Finset.range n_o, dense (nnOfSel .borderLen n_o r area arc) (k * n_o + o) ((k + 1) * n_o + o)
      = 4 * pi * Rab r k ^ 2 := by
  rw [radial_face_sum n_o r area arc harea k hk, hA]

/-- `Σ_o area.getD o 0` is the plain sum of the list. -/
theorem sum_getD_eq_sum (area : List K) : ∑ o ∈ Finset.range area.length, area.getD o 0 = area.sum := by
  induction area with
  | nil => simp
  | cons a t ih =>
    rw [List.length_cons, Finset.sum_range_succ', List.sum_cons, add_comm]
    congr 1

/-! ### `scipy.sparse.diags` as the code relies on it -/

/-- An over-long diagonal is cut to its first `n - off` values (the distances branch passes `n_t·n_o` values for a
diagonal of length `(n_t-1)·n_o`), a length-one diagonal is broadcast (the adjacency branch passes `(True,)`), any
other shorter diagonal raises `ValueError`. -/
theorem diags_behaviour (vals : List K) (off n : Nat) (lower : Bool) (h1 : off ≤ n) :
    (n - off ≤ vals.length → diagsCoo vals off lower n = .ok (diagEntries (vals.take (n - off)) off lower (n - off))) ∧
    (∀ v, vals = [v] → diagsCoo vals off lower n = .ok (diagEntries (List.replicate (n - off) v) off lower (n - off))) ∧
    (vals.length < n - off → vals.length ≠ 1 → diagsCoo vals off lower n = .error "ValueError") :=
  ⟨fun h2 => diagsCoo_cut vals off n lower h1 h2, fun v hv => hv ▸ diagsCoo_broadcast v off n lower h1,
   fun h2 h3 => diagsCoo_short vals off n lower h2 h3⟩

/-! ### non-vacuity: a concrete radial grid with unequal increments satisfies the hypotheses -/

/-- `[1, 5/2, 3]` (the Å image of `'[0.1, 0.25, 0.3]'`) is a valid radial grid over `ℚ`. -/
example : ValidRadii ([1, 5/2, 3] : List ℚ) := by
  refine ⟨by simp, by norm_num [rad], ?_⟩
  intro k hk
  simp only [List.length_cons, List.length_nil] at hk
  have : k = 0 ∨ k = 1 := by omega
  rcases this with rfl | rfl <;> norm_num [rad]

/-- `[0, 1, 3]` (the Å image of `'[0, 0.1, 0.3]'`) is accepted but not valid: the hypotheses of `zero_first_radius`. -/
example : AcceptedRadii ([0, 1, 3] : List ℚ) ∧ rad ([0, 1, 3] : List ℚ) 0 = 0 := by
  refine ⟨⟨by simp, by norm_num [rad], ?_⟩, by norm_num [rad]⟩
  intro k hk
  simp only [List.length_cons, List.length_nil] at hk
  have : k = 0 ∨ k = 1 := by omega
  rcases this with rfl | rfl <;> norm_num [rad]

/-- The hypotheses of `border_nonzero_iff` are satisfiable: two directions that are each other's neighbour. -/
example : ∃ (area : List ℚ) (arc adj : Nat → Nat → ℚ), area.length = 2 ∧ (∀ o, o < 2 → area.getD o 0 ≠ 0) ∧
    (∀ o o', o < 2 → o' < 2 → (arc o o' ≠ 0 ↔ adj o o' ≠ 0)) ∧ arc 0 1 ≠ 0 := by
  refine ⟨[1, 2], fun o o' => if o = o' then 0 else 3, fun o o' => if o = o' then 0 else 1, rfl, ?_, ?_, by norm_num⟩
  · intro o ho
    have : o = 0 ∨ o = 1 := by omega
    rcases this with rfl | rfl <;> norm_num
  · intro o o' _ _
    by_cases h : o = o' <;> simp [h]

/-- The hypothesis `hA` of the `…_sphere` theorems is satisfiable: over `ℝ` take `pi := Real.pi` and the true cell areas;
over `ℚ` e.g. two cells of area `2` with `pi := 1`. -/
example : ∑ o ∈ Finset.range ([2, 2] : List ℚ).length, ([2, 2] : List ℚ).getD o 0 = 4 * 1 := by
  simp [Finset.sum_range_succ]; norm_num

/-- The theorems specialise to the very instances the driver computes with (`K := ℚ`, core's `Rat.instAdd`, … as
elaborated in the Mathlib-free driver file): `nnPosition` / `volumes` as run by `lake env lean --run drivers/C05.lean`
are the functions the theorems speak about. -/
example (sel : Sel) (n_o : Nat) (r area : List Rat) (neig : Nat → Nat → Rat) (h : ValidRadii r) (harea : area.length = n_o) :
    @nnPosition Rat Rat.instAdd Rat.instSub Rat.instMul Rat.instDiv (@Zero.ofOfNat0 Rat (@Rat.instOfNat (nat_lit 0)))
      (@One.ofOfNat1 Rat (@Rat.instOfNat (nat_lit 1))) (@Rat.instOfNat 2) Rat.instLT Rat.instDecidableLt
      instDecidableEqRat sel n_o r area neig = .ok (nnOfSel sel n_o r area neig) :=
  nnPosition_ok h.accepted sel n_o area neig harea

example (r area : List Rat) (h : ValidRadii r) :
    @volumes Rat Rat.instAdd Rat.instSub Rat.instMul Rat.instDiv (@Zero.ofOfNat0 Rat (@Rat.instOfNat (nat_lit 0)))
      (@Rat.instOfNat 2) (@Rat.instOfNat 3) Rat.instLT Rat.instDecidableLt r area = .ok (volumesOf r area) :=
  volumes_ok h.accepted area

end Molgri.C05
