/-
C06 — Cartesian position mode reports the Euclidean Voronoi cell geometry.

Property theorems about `Molgri.Polygon` (the model of `utils.order_points`, `utils.get_polygon_area` and of the
Cartesian getters of `fullgrid.PositionGrid`).  Scalars: every linearly ordered field `K`; `nrm` is any function with
`0 ≤ nrm v` and `nrm v ² = |v|²` (`IsNorm`, i.e. `np.linalg.norm` without rounding).

What is proved for all inputs
  * `order_points` returns every vertex exactly once (`order_points_perm`);
  * face area (`orderKey_cyclic`, `fan_eq_shoelace`, `cart_face_area`): for every planar polygon whose vertices are in convex
    position, listed in ANY order, `order_points` walks along the boundary and `get_polygon_area` of the result is the
    shoelace area; no hypothesis about a vertex opposite the first one is left (F2 is repaired; the behaviour of the code
    before the repair is kept as `orderKey_antipode_witness_old`);
  * borders are computed from the same vertex set for both orientations of a pair (`cart_border_symm`), borders and
    distances are written entry by entry onto the adjacency pattern (`cart_pattern`), a distance is the Euclidean distance of
    the two grid points `t_k·o_i` (`cart_dist`), symmetric and positive (`cart_dist_symm`, `cart_dist_pos`);
  * the diagram is built from the grid plus one shell at `t_last + (t_last − t_prev)`, grid points keep their indices
    (`cart_extended`); a cell's volume is 0 if its region is open and qhull's hull volume otherwise (`cart_volume`).
What is not a theorem (external, validated on every run by the oracle): that scipy's regions are the Euclidean Voronoi
cells and that the vertices shared by two regions are exactly the vertices of their common face, in convex position.
OPEN: "all volumes are positive" is false for the code as it exists (finding F11: open cells get volume 0); see
`cart_volume_pos_partial` and `cart_open_cell_witness`.
-/
import Molgri.Lemmas.Polygon
import Mathlib.Tactic.IntervalCases
import Mathlib.Algebra.Order.Field.Rat

namespace Molgri.C06
open Molgri.Polygon

variable {K : Type} [Field K] [LinearOrder K] [IsStrictOrderedRing K]
set_option linter.unusedSectionVars false

/-! ## face areas -/

/-- `order = np.argsort(alphas)` is a permutation of the vertex indices: "every reported border area" is computed from all
shared vertices, each used once.  (All inputs, planar or not.) -/
theorem order_points_perm (ps : List (V3 K)) : (orderIdx ps).Perm (List.range ps.length) :=
  orderIdx_perm ps

/-- **`orderKey_cyclic`** — "vertex ordering by signed angle about the centroid".
A polygon in a plane of ℝ³ (orthonormal frame `F`, plane coordinates `ps`, vertices listed in any order), some vertex not
collinear with the first vertex and the centroid, vertices in convex position (`ConvexPos`: no vertex inside the triangle
of the centroid and two other vertices).  Then `order_points` (i) is `order_points` of the plane coordinates, (ii) is a
rearrangement of the vertices and (iii) walks along the boundary of the polygon: every three vertices taken in the order of
the output have the same orientation `σ ≠ 0` (or are collinear).  No condition on vertices opposite the first one. -/
theorem orderKey_cyclic (F : Frame K) (hF : F.Orthonormal) (ps : List (K × K))
    (hnd : ∃ d ∈ normalDets ps, d ≠ 0) (hconv : ConvexPos ps) :
    orderPoints (ps.map F.emb) = (orderPoints2 ps).map F.emb ∧
    (orderPoints2 ps).Perm ps ∧
    ∃ σ : K, σ ≠ 0 ∧ ∀ x y z, [x, y, z].Sublist (orderPoints2 ps) → 0 ≤ σ * orient2 x y z := by
  refine ⟨orderPoints_emb F hF ps, orderPoints2_perm ps, -(delta ps), neg_ne_zero.mpr (delta_ne_zero hnd), ?_⟩
  exact orderPoints2_oriented ps (delta_ne_zero hnd) hconv

/-- **`fan_eq_shoelace`** — "fan triangulation area".  For plane points `qs` embedded in ℝ³ and listed along the boundary of
a convex polygon (every three in list order have one orientation `σ`), `get_polygon_area` — the sum of the ABSOLUTE
triangle areas of the fan from the first vertex — is the shoelace area `|Σ (x_i y_{i+1} − x_{i+1} y_i)| / 2`. -/
theorem fan_eq_shoelace {nrm : V3 K → K} (hn : IsNorm nrm) (F : Frame K) (hF : F.Orthonormal) (qs : List (K × K))
    {σ : K} (hσ : σ ≠ 0) (hcyc : ∀ x y z, [x, y, z].Sublist qs → 0 ≤ σ * orient2 x y z) :
    fanArea nrm (qs.map F.emb) = |shoelace qs| / 2 := by
  rw [fanArea_emb hn F hF, sum_abs_of_oriented (neg_ne_zero.mpr hσ) _ (fanDets_oriented qs hcyc), fanDets_sum, abs_neg]

/-- the signed fan triangles always add up to the shoelace sum, for every list of plane points (no convexity, no order):
only the absolute values taken by the code need the cyclic order. -/
theorem fan_signed_eq_shoelace (qs : List (K × K)) : (fanDets qs).sum = -shoelace qs := fanDets_sum qs

/-- **`cart_face_area`** — "every reported border area equals the area of the planar face": one entry of
`get_cartesian_surfaces` for a face whose shared vertices are the vertices of a planar convex polygon, in whatever order
qhull numbers them, is the shoelace area of that polygon traversed along its boundary. -/
theorem cart_face_area {nrm : V3 K → K} (hn : IsNorm nrm) (F : Frame K) (hF : F.Orthonormal) (ps : List (K × K))
    (hnd : ∃ d ∈ normalDets ps, d ≠ 0) (hconv : ConvexPos ps) :
    polyArea nrm (ps.map F.emb) = |shoelace (orderPoints2 ps)| / 2 ∧ (orderPoints2 ps).Perm ps := by
  obtain ⟨h1, h2, σ, hσ, h3⟩ := orderKey_cyclic F hF ps hnd hconv
  refine ⟨?_, h2⟩
  have hlen : (ps.map F.emb).length > 1 := by
    obtain ⟨d, hd, _⟩ := hnd
    cases ps with
    | nil => simp [normalDets] at hd
    | cons f rest =>
      cases rest with
      | nil => simp [normalDets] at hd
      | cons g t => simp
  unfold polyArea
  rw [if_pos hlen, h1]
  exact fan_eq_shoelace hn F hF _ hσ h3

/-- **`ConvexPos` is the textbook notion**: if every vertex is strictly separated from all other vertices by a line
(`StrictlyConvex`: the vertices of a strictly convex polygon, in any order), no vertex lies inside the triangle of the
centroid and two other vertices.  So `orderKey_cyclic` and `cart_face_area` apply to every strictly convex face. -/
theorem strictlyConvex_convexPos (ps : List (K × K)) (h : StrictlyConvex ps) : ConvexPos ps :=
  convexPos_of_strictlyConvex ps h

/-- `cart_face_area` under the textbook hypothesis. -/
theorem cart_face_area_strictlyConvex {nrm : V3 K → K} (hn : IsNorm nrm) (F : Frame K) (hF : F.Orthonormal)
    (ps : List (K × K)) (hnd : ∃ d ∈ normalDets ps, d ≠ 0) (hconv : StrictlyConvex ps) :
    polyArea nrm (ps.map F.emb) = |shoelace (orderPoints2 ps)| / 2 ∧ (orderPoints2 ps).Perm ps :=
  cart_face_area hn F hF ps hnd (strictlyConvex_convexPos ps hconv)

/-! ### a concrete polygon satisfying the hypotheses: the square, vertices listed criss-cross, in the plane `z = 5` -/

def exFrame : Frame ℚ := ⟨⟨0, 0, 5⟩, ⟨1, 0, 0⟩, ⟨0, 1, 0⟩⟩
def exSquare : List (ℚ × ℚ) := [(1, 1), (-1, -1), (-1, 1), (1, -1)]

theorem exFrame_orthonormal : exFrame.Orthonormal := by
  simp [Frame.Orthonormal, exFrame, V3.dot]

theorem exSquare_mean : mean2 exSquare = (0, 0) := by
  simp [mean2, exSquare]

theorem exSquare_nondegenerate : ∃ d ∈ normalDets exSquare, d ≠ 0 := by
  refine ⟨2, ?_, by norm_num⟩
  simp only [normalDets, exSquare, List.map_cons, List.mem_cons]
  right; left
  have := exSquare_mean
  simp only [exSquare] at this
  rw [this]; simp [det2]; norm_num

theorem exSquare_convexPos : ConvexPos exSquare := by
  intro i j k u v w hi hj hk hij hjk hik
  rw [exSquare_mean]
  have hi4 : i < 4 := by
    have := (List.getElem?_eq_some_iff.mp hi).1; simpa [exSquare] using this
  have hj4 : j < 4 := by
    have := (List.getElem?_eq_some_iff.mp hj).1; simpa [exSquare] using this
  have hk4 : k < 4 := by
    have := (List.getElem?_eq_some_iff.mp hk).1; simpa [exSquare] using this
  rintro ⟨α, β, h1, h2, h3, h4⟩
  interval_cases i <;> interval_cases j <;> interval_cases k <;>
    simp [exSquare] at hi hj hk hij hjk hik <;>
    (subst hi; subst hj; subst hk; simp [Prod.ext_iff] at h4; obtain ⟨h5, h6⟩ := h4; linarith)

/-- the square is strictly convex: each vertex `v` is separated from the others by the line with normal `v`. -/
theorem exSquare_strictlyConvex : StrictlyConvex exSquare := by
  intro j v hj
  refine ⟨v, ?_⟩
  intro i u hi hij
  have hj4 : j < 4 := by
    have := (List.getElem?_eq_some_iff.mp hj).1; simpa [exSquare] using this
  have hi4 : i < 4 := by
    have := (List.getElem?_eq_some_iff.mp hi).1; simpa [exSquare] using this
  interval_cases i <;> interval_cases j <;> simp [exSquare] at hi hj hij <;>
    (subst hi; subst hj; simp [dot2] <;> norm_num)

/-- the hypotheses of `orderKey_cyclic` / `cart_face_area` are satisfiable; the reported area of the criss-cross square is 4. -/
example {nrm : V3 ℚ → ℚ} (hn : IsNorm nrm) :
    polyArea nrm (exSquare.map exFrame.emb) = |shoelace (orderPoints2 exSquare)| / 2 :=
  (cart_face_area hn exFrame exFrame_orthonormal exSquare exSquare_nondegenerate exSquare_convexPos).1

/-- the hypotheses of `fan_eq_shoelace` (an orientation `σ ≠ 0` shared by all triples in list order) hold for the output of
`order_points` on the criss-cross square; an `IsNorm` function exists over ℝ (`isNorm_sqrt` in `Props/C06Real.lean`). -/
example : ∃ σ : ℚ, σ ≠ 0 ∧ ∀ x y z, [x, y, z].Sublist (orderPoints2 exSquare) → 0 ≤ σ * orient2 x y z :=
  (orderKey_cyclic exFrame exFrame_orthonormal exSquare exSquare_nondegenerate exSquare_convexPos).2.2

/-! ## finding F2: the code before commit 5af65de, as regression witnesses (finite tables, `decide +kernel`)

The centrally symmetric hexagon `(2,0),(1,1),(−1,1),(−2,0),(−1,−1),(1,−1)` of area 6 (`z`-components of the fan cross
products are twice the signed triangle areas). -/

def hexCyclic : List (V3 Int) := [⟨2, 0, 0⟩, ⟨1, 1, 0⟩, ⟨-1, 1, 0⟩, ⟨-2, 0, 0⟩, ⟨-1, -1, 0⟩, ⟨1, -1, 0⟩]
def hexOppositeSecond : List (V3 Int) := [⟨2, 0, 0⟩, ⟨-2, 0, 0⟩, ⟨1, 1, 0⟩, ⟨-1, 1, 0⟩, ⟨-1, -1, 0⟩, ⟨1, -1, 0⟩]

/-- **`orderKey_antipode_witness`, old code** — (a) `np.sign(0) = 0`: the vertex opposite the first one gets the angle 0 and is
sorted next to the first vertex (`… 0, 3 …`); the fan then contains a triangle of the wrong orientation and the absolute
values add up to 14/2 = 7 ≠ 6.  (b) with the opposite vertex listed second the reference normal is the zero vector, every
direction is 0, nothing is sorted, and the fan of the unsorted list gives 7 again. -/
theorem orderKey_antipode_witness_old :
    orderIdxOld hexCyclic = [2, 1, 0, 3, 5, 4] ∧
    (fanCrosses (orderPointsOld hexCyclic)).map (·.z) = [2, 4, -4, 4] ∧
    orderIdxOld hexOppositeSecond = [0, 1, 2, 3, 4, 5] ∧
    (fanCrosses (orderPointsOld hexOppositeSecond)).map (·.z) = [4, -2, -6, -2] := by
  decide +kernel

/-- **`orderKey_antipode_witness`, repaired code** — on the same two inputs the opposite vertex gets the angle π (sorted last),
the normal is taken from a non-collinear vertex, all fan triangles have one orientation and add up to 12/2 = 6. -/
theorem orderKey_antipode_witness :
    orderIdx hexCyclic = [2, 1, 0, 5, 4, 3] ∧
    (fanCrosses (orderPoints hexCyclic)).map (·.z) = [2, 4, 4, 2] ∧
    orderIdx hexOppositeSecond = [3, 2, 0, 5, 4, 1] ∧
    (fanCrosses (orderPoints hexOppositeSecond)).map (·.z) = [2, 4, 4, 2] ∧
    alphaKeys hexCyclic = [(0, 0), (-4, 2), (-4, -2), (0, -4), (4, -2), (4, 2)] := by
  decide +kernel

/-! ## borders, distances, volumes of the grid -/

/-- "borders … are symmetric": the polygon of the pair `(row, col)` is literally the polygon of `(col, row)` (same vertices,
same order), so the two reported areas are the same number. -/
theorem cart_border_symm (nrm : V3 K → K) (v : Vor K) (row col : Nat) :
    borderPolygon v row col = borderPolygon v col row ∧
    cartesianSurfaces nrm v [(row, col)] = cartesianSurfaces nrm v [(col, row)] := by
  refine ⟨borderPolygon_comm v row col, ?_⟩
  simp only [cartesianSurfaces, surfacesWith, List.mapM_cons, List.mapM_nil, borderPolygon_comm v row col]

/-- "on the same pattern as the adjacency": borders and distances are one value per entry of the adjacency matrix, in its
entry order — entry `k` of the result belongs to the pair `adj[k]` and is computed from that pair only. -/
theorem cart_pattern {nrm : V3 K → K} (v : Vor K) (points : List (V3 K)) (adj : List (Nat × Nat)) :
    (∀ s, cartesianSurfaces nrm v adj = .ok s →
      s.length = adj.length ∧ ∀ (k : Nat) (rc : Nat × Nat), adj[k]? = some rc →
        ∃ poly, borderPolygon v rc.1 rc.2 = .ok poly ∧ s[k]? = some (polyArea nrm poly)) ∧
    (∀ d, cartesianDistances nrm points adj = .ok d →
      d.length = adj.length ∧ ∀ (k : Nat) (rc : Nat × Nat), adj[k]? = some rc →
        ∃ p q, points[rc.1]? = some p ∧ points[rc.2]? = some q ∧ d[k]? = some (nrm (p.sub q))) := by
  constructor
  · intro s hs
    obtain ⟨hl, hk⟩ := mapM_ok _ adj s hs
    refine ⟨hl, fun k rc hrc => ?_⟩
    obtain ⟨b, hb, hbk⟩ := hk k rc hrc
    cases hp : borderPolygon v rc.1 rc.2 with
    | error e => rw [hp] at hb; simp [bind, Except.bind] at hb
    | ok poly =>
      rw [hp] at hb
      simp only [bind, Except.bind, pure, Except.pure, Except.ok.injEq] at hb
      exact ⟨poly, rfl, hb ▸ hbk⟩
  · intro d hd
    obtain ⟨hl, hk⟩ := mapM_ok _ adj d hd
    refine ⟨hl, fun k rc hrc => ?_⟩
    obtain ⟨b, hb, hbk⟩ := hk k rc hrc
    cases hp : points[rc.1]? with
    | none => simp [hp, throw, throwThe, MonadExceptOf.throw] at hb
    | some p =>
      cases hq : points[rc.2]? with
      | none => simp [hp, hq, throw, throwThe, MonadExceptOf.throw] at hb
      | some q =>
        simp only [hp, hq, pure, Except.pure, Except.ok.injEq] at hb
        exact ⟨p, q, rfl, rfl, hb ▸ hbk⟩

/-- **`cart_dist`** — "every reported distance is the Euclidean distance between the two grid points": for the position grid
`positions o t` (all directions at the first radius, then at the second, …), the entry for the pair
`(k·n_o + i, k'·n_o + i')` is `‖t_k·o_i − t_k'·o_i'‖`. -/
theorem cart_dist {nrm : V3 K → K} (o : List (V3 K)) (t : List K) (k i k' i' : Nat) (oi oi' : V3 K) (tk tk' : K)
    (hi : o[i]? = some oi) (hi' : o[i']? = some oi') (hk : t[k]? = some tk) (hk' : t[k']? = some tk') :
    cartesianDistances nrm (positions o t) [(k * o.length + i, k' * o.length + i')]
      = .ok [nrm ((V3.smul tk oi).sub (V3.smul tk' oi'))] := by
  have h1 := positions_getElem? o t k i (List.getElem?_eq_some_iff.mp hi).1
  have h2 := positions_getElem? o t k' i' (List.getElem?_eq_some_iff.mp hi').1
  rw [hk, hi] at h1
  rw [hk', hi'] at h2
  simp only [Option.bind_some, Option.map_some] at h1 h2
  simp [cartesianDistances, distancesWith, h1, h2, pure, Except.pure, bind, Except.bind]

/-- "distances are symmetric": the entries of `(row, col)` and `(col, row)` are equal. -/
theorem cart_dist_symm {nrm : V3 K → K} (hn : IsNorm nrm) (p q : V3 K) : nrm (p.sub q) = nrm (q.sub p) :=
  nrm_eq_of_nrm2_eq hn (nrm2_sub_comm p q)

/-- "distances are strictly positive": for two different grid points. -/
theorem cart_dist_pos {nrm : V3 K → K} (hn : IsNorm nrm) {p q : V3 K} (h : p ≠ q) : 0 < nrm (p.sub q) :=
  nrm_pos_of_ne hn h

/-- **`cart_extended`** — "the point set extended by one extra outer shell": the input of scipy's `Voronoi` is the position
grid followed by all directions at one more radius, `t_last + (t_last − t_prev)` (`2·t₀` for a single radius; the first radius may be 0, the differences are positive); the grid
points keep their indices (`k·n_o + i`), which is what lets `point_region[row]` be the region of grid point `row`. -/
theorem cart_extended (o : List (V3 K)) :
    (∀ (t0 : K), 0 ≤ t0 → extendedPositions o [t0] = .ok (positions o [t0] ++ o.map (V3.smul (t0 + t0)))) ∧
    (∀ (t : List K) (p l : K), incrementsOk (incrementsOf (t ++ [p, l])) = true →
      extendedPositions o (t ++ [p, l]) = .ok (positions o (t ++ [p, l]) ++ o.map (V3.smul (l + (l - p))))) := by
  constructor
  · intro t0 h0
    simp [extendedPositions, extendedRadii, lastIncrement, incrementsOf, incrementsOk, not_lt.mpr h0, bind, Except.bind,
      pure, Except.pure, ← positions_append]
  · intro t p l hinc
    have hl : (t ++ [p, l]).getLast? = some l := by simp
    simp only [extendedPositions, extendedRadii, hl, lastIncrement_append_two, hinc, if_true, bind, Except.bind, pure,
      Except.pure, ← positions_append]

/-- the guard is the assertion of `get_increments`: first radius `≥ 0` (zero allowed since commit cae935f), differences `> 0`. -/
example : incrementsOk (incrementsOf ([1, 2] ++ [(7 / 2 : ℚ), 4])) = true ∧ incrementsOk (incrementsOf ([] ++ [(0 : ℚ), 1])) = true ∧
    incrementsOk (incrementsOf ([1, 1] : List ℚ)) = false := by
  simp [incrementsOf, incrementsOk]; norm_num

/-- **`cart_volume`** — "scipy Voronoi of grid + extra shell; open cells get volume 0": every cell whose region is closed
reports qhull's hull volume of that region, every cell whose region contains the vertex at infinity reports 0. -/
theorem cart_volume (hullVol : List Int → K) (v : Vor K) (n : Nat) (vols : List K)
    (h : cartesianVolumes hullVol v n = .ok vols) :
    vols.length = n ∧ ∀ (idx : Nat) (reg : List Int), idx < n → regionOf v idx = .ok reg → idx < v.pointRegion.length →
      vols[idx]? = some (if isOpen reg then 0 else hullVol reg) := by
  unfold cartesianVolumes volumesWith at h
  cases hregs : (List.range v.pointRegion.length).mapM (regionOf v) with
  | error e => rw [hregs] at h; simp [bind, Except.bind] at h
  | ok regs =>
    rw [hregs] at h
    simp only [bind, Except.bind] at h
    split_ifs at h with hany
    · simp only [pure, Except.pure, Except.ok.injEq] at h
      subst h
      refine ⟨by simp, ?_⟩
      intro idx reg hidx hreg hlt
      obtain ⟨_, hk⟩ := mapM_ok _ _ regs hregs
      obtain ⟨b, hb, hbk⟩ := hk idx idx (by simp [hlt])
      rw [hreg] at hb
      simp only [Except.ok.injEq] at hb
      subst hb
      simp [hidx, hbk]

/-- "All volumes are positive" — PARTIAL: positive for every cell whose region is closed (qhull's hull volume of a
non-degenerate region being positive).
OPEN (finding F11, false for the code as it exists):
  `∀ idx < n, ∃ x, vols[idx]? = some x ∧ 0 < x`
fails whenever a grid point's region is open (ico_4, cube3D_4, randomS_4..7: the directions do not surround the origin, the
Euclidean cells are unbounded even inside the extended point set); see `cart_open_cell_witness`. -/
theorem cart_volume_pos_partial (hullVol : List Int → K) (v : Vor K) (n : Nat) (vols : List K)
    (h : cartesianVolumes hullVol v n = .ok vols) (idx : Nat) (reg : List Int) (hidx : idx < n)
    (hreg : regionOf v idx = .ok reg) (hlt : idx < v.pointRegion.length) (hclosed : isOpen reg = false)
    (hpos : 0 < hullVol reg) : ∃ x, vols[idx]? = some x ∧ 0 < x := by
  obtain ⟨_, hv⟩ := cart_volume hullVol v n vols h
  refine ⟨hullVol reg, ?_, hpos⟩
  rw [hv idx reg hidx hreg hlt, hclosed]; simp

/-- F11 on the model: a diagram with two grid points, the first with a closed region, the second with an open one (vertex
`-1`) — the second volume is 0 although `hullVol` is positive everywhere; the extra-shell point (index 2) is open too and
writes nothing. -/
theorem cart_open_cell_witness :
    cartesianVolumes (fun _ => (7 : Int)) (⟨[], [[], [0, 1, 2, 3], [-1, 0, 1], [2, -1, 3]], [1, 2, 3]⟩ : Vor Int) 2
      = .ok [7, 0] := by
  decide +kernel

example : cartesianVolumes (fun _ => (7 : ℚ)) (⟨[], [[], [0, 1, 2, 3], [-1, 0, 1]], [1, 2]⟩ : Vor ℚ) 2 = .ok [7, 0] := by
  simp [cartesianVolumes, volumesWith, regionOf, isOpen, List.range, List.range.loop, bind, Except.bind, pure, Except.pure,
    List.zipIdx]

end Molgri.C06
