/-
C06 — the model's comparison of `arctan2` argument pairs IS the order of `arctan2`.

`order_points` sorts by `alpha = np.arctan2(s, c)`.  The model (`Molgri/Model/Polygon.lean`) never evaluates `arctan2`; it
compares the pairs `(s, c)` with `angLe`.  Here, over ℝ, with `arctan2 y x := Complex.arg (x + y·i)` — the principal value in
`(−π, π]`, `arctan2 0 0 = 0`, `arctan2 0 x = π` for `x < 0`, which is numpy's `arctan2` for finite arguments (up to the sign of a
zero `y`, see the model's header):

  `angLe (s₁, c₁) (s₂, c₂) = true  ↔  arctan2 s₁ c₁ ≤ arctan2 s₂ c₂`.
-/
import Molgri.Lemmas.Polygon
import Mathlib.Analysis.SpecialFunctions.Complex.Arg

namespace Molgri.C06
open Molgri.Polygon

/-- `np.arctan2(y, x)` as a real function. -/
noncomputable def arctan2 (y x : ℝ) : ℝ := Complex.arg ⟨x, y⟩

/-- where `arctan2` lies, by the class (`rank`) of its argument pair. -/
theorem arctan2_rank (k : ℝ × ℝ) :
    (rank k = 0 ∧ -Real.pi < arctan2 k.1 k.2 ∧ arctan2 k.1 k.2 < 0) ∨ (rank k = 1 ∧ arctan2 k.1 k.2 = 0) ∨
    (rank k = 2 ∧ 0 < arctan2 k.1 k.2 ∧ arctan2 k.1 k.2 < Real.pi) ∨ (rank k = 3 ∧ arctan2 k.1 k.2 = Real.pi) := by
  have h3 := rank_le_three k
  unfold arctan2
  rcases Nat.lt_or_ge (rank k) 1 with h | h
  · have r0 : rank k = 0 := by omega
    refine Or.inl ⟨r0, Complex.neg_pi_lt_arg _, ?_⟩
    exact Complex.arg_neg_iff.mpr (rank_eq_zero.mp r0)
  rcases Nat.lt_or_ge (rank k) 2 with h' | h'
  · have r1 : rank k = 1 := by omega
    refine Or.inr (Or.inl ⟨r1, ?_⟩)
    obtain ⟨a, b⟩ := rank_eq_one.mp r1
    exact Complex.arg_eq_zero_iff.mpr ⟨b, a⟩
  rcases Nat.lt_or_ge (rank k) 3 with h'' | h''
  · have r2 : rank k = 2 := by omega
    have hy := rank_eq_two.mp r2
    refine Or.inr (Or.inr (Or.inl ⟨r2, ?_, ?_⟩))
    · have h0 : 0 ≤ Complex.arg ⟨k.2, k.1⟩ := Complex.arg_nonneg_iff.mpr hy.le
      rcases h0.lt_or_eq with hlt | heq
      · exact hlt
      · exfalso
        have := (Complex.arg_eq_zero_iff.mp heq.symm).2
        simp at this; linarith
    · exact Complex.arg_lt_pi_iff.mpr (Or.inr (by simpa using hy.ne'))
  · have r3 : rank k = 3 := by omega
    refine Or.inr (Or.inr (Or.inr ⟨r3, ?_⟩))
    obtain ⟨a, b⟩ := rank_eq_three.mp r3
    exact Complex.arg_eq_pi_iff.mpr ⟨b, a⟩

/-- inside an open half plane the difference of two `arctan2` values has the sign of the determinant. -/
theorem arctan2_le_iff_kdet {k1 k2 : ℝ × ℝ} (h1 : k1.1 ≠ 0) (h2 : k2.1 ≠ 0)
    (hd : |arctan2 k2.1 k2.2 - arctan2 k1.1 k1.2| < Real.pi) :
    arctan2 k1.1 k1.2 ≤ arctan2 k2.1 k2.2 ↔ 0 ≤ kdet k1 k2 := by
  set z1 : ℂ := ⟨k1.2, k1.1⟩ with hz1
  set z2 : ℂ := ⟨k2.2, k2.1⟩ with hz2
  have z1ne : z1 ≠ 0 := by intro h; apply h1; simpa [hz1] using congrArg Complex.im h
  have z2ne : z2 ≠ 0 := by intro h; apply h2; simpa [hz2] using congrArg Complex.im h
  have n1 : 0 < ‖z1‖ := norm_pos_iff.mpr z1ne
  have n2 : 0 < ‖z2‖ := norm_pos_iff.mpr z2ne
  have hsin : Real.sin (Complex.arg z2 - Complex.arg z1) = kdet k1 k2 / (‖z1‖ * ‖z2‖) := by
    rw [Real.sin_sub, Complex.sin_arg, Complex.sin_arg, Complex.cos_arg z1ne, Complex.cos_arg z2ne]
    simp only [hz1, hz2, kdet]
    field_simp
  unfold arctan2 at hd ⊢
  rw [abs_lt] at hd
  constructor
  · intro hle
    have : 0 ≤ Real.sin (Complex.arg z2 - Complex.arg z1) :=
      Real.sin_nonneg_of_nonneg_of_le_pi (by linarith) (by linarith [hd.2])
    rw [hsin] at this
    exact (div_nonneg_iff.mp this).elim (fun h => h.1) (fun h => absurd (mul_pos n1 n2) (not_lt.mpr h.2))
  · intro hk
    by_contra hlt
    rw [not_le] at hlt
    have : Real.sin (Complex.arg z2 - Complex.arg z1) < 0 :=
      Real.sin_neg_of_neg_of_neg_pi_lt (by linarith) (by linarith [hd.1])
    rw [hsin] at this
    have : 0 ≤ kdet k1 k2 / (‖z1‖ * ‖z2‖) := div_nonneg hk (mul_pos n1 n2).le
    linarith

/-- **`angLe` is the order of `arctan2`.** -/
theorem angLe_iff_arctan2 (s1 c1 s2 c2 : ℝ) :
    angLe (s1, c1) (s2, c2) = true ↔ arctan2 s1 c1 ≤ arctan2 s2 c2 := by
  have hpi := Real.pi_pos
  rw [angLe_iff]
  rcases arctan2_rank (s1, c1) with ⟨r1, a1, b1⟩ | ⟨r1, a1⟩ | ⟨r1, a1, b1⟩ | ⟨r1, a1⟩ <;>
  rcases arctan2_rank (s2, c2) with ⟨r2, a2, b2⟩ | ⟨r2, a2⟩ | ⟨r2, a2, b2⟩ | ⟨r2, a2⟩ <;>
  rw [r1, r2] <;> simp only at a1 a2 <;>
  first
    | -- both in the open lower half plane
      (have hk := arctan2_le_iff_kdet (k1 := (s1, c1)) (k2 := (s2, c2)) (rank_eq_zero.mp r1).ne (rank_eq_zero.mp r2).ne
        (by rw [abs_lt]; constructor <;> simp only <;> linarith)
       simp only at hk
       rw [hk]; norm_num)
    | -- both in the open upper half plane
      (have hk := arctan2_le_iff_kdet (k1 := (s1, c1)) (k2 := (s2, c2)) (rank_eq_two.mp r1).ne' (rank_eq_two.mp r2).ne'
        (by rw [abs_lt]; constructor <;> simp only <;> linarith)
       simp only at hk
       rw [hk]; norm_num)
    | exact ⟨fun _ => by linarith, fun _ => by norm_num⟩
    | exact ⟨fun h => by norm_num at h, fun h => by exfalso; linarith⟩

/-- an instance: a vertex in the lower half plane is sorted before the vertex opposite the first one (angle π). -/
example : arctan2 (-1) 0 ≤ arctan2 0 (-1) :=
  (angLe_iff_arctan2 _ _ _ _).mp (by
    rw [angLe_iff]; left; rw [rank_eq_zero.mpr (by norm_num), rank_eq_three.mpr (by norm_num)]; norm_num)

/-- `IsNorm` is satisfiable: over ℝ the Euclidean norm `√(x² + y² + z²)` (what `np.linalg.norm` computes up to rounding). -/
theorem isNorm_sqrt : IsNorm (fun v : V3 ℝ => Real.sqrt (V3.nrm2 v)) := by
  refine ⟨fun v => Real.sqrt_nonneg _, fun v => Real.mul_self_sqrt ?_⟩
  simp only [V3.nrm2, V3.dot]
  nlinarith [mul_self_nonneg v.x, mul_self_nonneg v.y, mul_self_nonneg v.z]

end Molgri.C06
