/-
C07 — every generated sphere grid is N distinct unit points; rotations are unique.

Property theorems about `Molgri.Hemi` (the model of `q_in_upper_sphere`, `hemisphere_quaternion_set`,
`SphereGrid4Dim._gen_grid`, `get_upper_indices`, `get_grid_as_array`, the assertions of `gen_grid`,
`get_nodes`, `get_half_of_hypercube`, the generation loops, the `fulldiv` table, the zero grids and
`random_sphere_points`).  Scalars: any linearly ordered field `K` (the driver runs the same definitions on `ℚ`,
the exact images of the floats).

Quantifiers: every row / grid / node list / N / tolerance; the polytope's node list (an output of the subdivision
code, C18) and the normalisation `proj` (numpy) are parameters constrained only by the stated hypotheses, each of
which is re-validated on the implementation's data on every run (driver ops `gap`, `lattice`, `select_half`).

NOT a theorem (stated in the manifest): the separation bounds `1/√N`, `0.6/∛N`.  They are checked exactly
(integer arithmetic, `sepDirOk` / `sepRotVerdict`) on the exact node lists for every N within the exploration bound.
-/
import Molgri.Lemmas.Hemisphere
import Molgri.Model.IcoExact

set_option linter.unusedSectionVars false
namespace Molgri.C07
open Molgri.Hemi

variable {K : Type} [Field K] [LinearOrder K] [IsStrictOrderedRing K]

/-! ### canonical half of the quaternion sphere -/

/-- *"the canonical half of the quaternion sphere (first non-zero coordinate positive)"* — what the loop of
`q_in_upper_sphere` computes for every row and every tolerance: some coordinate is positive and all coordinates
before it are within the tolerance of zero. -/
theorem upper_spec (tol : K) (q : List K) :
    upper tol q = true ↔ ∃ i, i < q.length ∧ (∀ j, j < i → |q.getD j 0| ≤ tol) ∧ 0 < q.getD i 0 :=
  Molgri.Hemi.upper_spec tol q

/-- On rows whose coordinates are exactly zero or larger than the tolerance (`Gap`; true of every grid the package
generates, validated per run) the test is exactly *"first non-zero coordinate positive"*. -/
theorem upper_exact (tol : K) (ht : 0 ≤ tol) (q : List K) (hg : Gap tol q) :
    upper tol q = true ↔ ∃ i, i < q.length ∧ (∀ j, j < i → q.getD j 0 = 0) ∧ 0 < q.getD i 0 := by
  rw [upper_of_gap ht hg, Molgri.Hemi.upper_spec]
  simp only [abs_nonpos_iff]

example : Gap (1 : ℚ) [0, 3, -4, 0] := by rw [← gapOk_iff]; decide

/-- *"no two rows represent the same rotation"*, pointwise core: of `q` and `-q` exactly one is in the canonical
half (for every non-zero row satisfying `Gap`). -/
theorem upper_xor (tol : K) (ht : 0 ≤ tol) (q : List K) (hg : Gap tol q) (hn : NonZero q) :
    upper tol (neg q) = !upper tol q :=
  upper_neg ht hg hn

example : Gap (1 : ℚ) [0, -3, 4, 0] ∧ NonZero ([0, -3, 4, 0] : List ℚ) :=
  ⟨by rw [← gapOk_iff]; decide, ⟨-3, by simp, by norm_num⟩⟩

/-- Why `Gap` is a hypothesis: with the code's tolerance test a row with a tiny leading coordinate and its negative
are *both* accepted (witness `tol = 1`, `q = (-1, 5)`; for the real `1e-8` e.g. `(-1e-9, 0.5, …)`).
The full-strength statement "exactly one of ±q for every non-zero q" is false of the code as written. -/
theorem upper_tolerance_witness :
    upper (1 : ℚ) [-1, 5] = true ∧ upper (1 : ℚ) (neg [-1, 5]) = true := by decide

/-- `hemisphere_quaternion_set` returns `q` or `-q` … -/
theorem canon_mem (tol : K) (q : List K) : canon tol q = q ∨ canon tol q = neg q := by
  unfold canon; split <;> simp

/-- … and the one it returns lies in the canonical half. -/
theorem canon_upper (tol : K) (ht : 0 ≤ tol) (q : List K) (hg : Gap tol q) (hn : NonZero q) :
    upper tol (canon tol q) = true := by
  unfold canon
  split
  · assumption
  · rename_i h
    rw [upper_neg ht hg hn]; simpa using h

/-- The canonical representative does not depend on which of `q`, `-q` was drawn. -/
theorem canon_neg (tol : K) (ht : 0 ≤ tol) (q : List K) (hg : Gap tol q) (hn : NonZero q) :
    canon tol (neg q) = canon tol q := by
  unfold canon
  rw [upper_neg ht hg hn, neg_neg']
  cases upper tol q <;> simp

/-! ### double cover -/

/-- *"the full double-cover array is the N rows followed by their exact negatives in the same order"*:
whenever `SphereGrid4Dim._gen_grid` returns, the result has `2N` rows, row `i` is `G[i]` and row `N+i` is `-G[i]`. -/
theorem doubleCover_layout (N : Nat) (G F : List (List K)) (h : doubleCover N G = .ok F) :
    F = G ++ G.map neg ∧ F.length = 2 * N ∧ G.length = N ∧
    ∀ i, i < N → F.getD i [] = G.getD i [] ∧ F.getD (N + i) [] = neg (G.getD i []) := by
  obtain ⟨hF, hN⟩ := doubleCover_ok h
  subst hF; subst hN
  refine ⟨rfl, by simp; omega, rfl, ?_⟩
  intro i hi
  constructor
  · rw [List.getD_eq_getElem (hn := by simp; omega), List.getElem_append_left hi,
      List.getD_eq_getElem (hn := hi)]
  · rw [List.getD_eq_getElem (hn := by simp; omega), List.getElem_append_right (by omega), List.getElem_map,
      List.getD_eq_getElem (hn := hi)]
    simp

/-- It returns for every `(N,4)` half grid. -/
theorem doubleCover_total (G : List (List K)) (h4 : ∀ q ∈ G, q.length = 4) :
    doubleCover G.length G = .ok (G ++ G.map neg) :=
  doubleCover_self h4

example : ∀ q ∈ ([[0, 3, -4, 0], [1, 0, 0, 0]] : List (List ℚ)), q.length = 4 := by decide

/-- *"the N rows all lie in the canonical half"* ⇒ `get_grid_as_array(only_upper=True)` of the double cover is
exactly the N rows, in order, and `get_upper_indices` is `0..N-1`. -/
theorem only_upper_of_doubleCover (tol : K) (ht : 0 ≤ tol) (G : List (List K))
    (hG : ∀ q ∈ G, Gap tol q ∧ upper tol q = true) :
    gridAsArray tol (G ++ G.map neg) true = G ∧ upperIdx tol (G ++ G.map neg) = List.range G.length := by
  refine ⟨?_, upperIdx_cover ht hG⟩
  unfold gridAsArray
  rw [if_pos rfl, upperIdx_map_getD, filter_upper_cover ht hG]

example : ∀ q ∈ ([[0, 3, -4, 0], [2, 0, 0, -7]] : List (List ℚ)), Gap 1 q ∧ upper 1 q = true := by
  intro q hq
  rw [← gapOk_iff]
  revert q; decide

/-! ### half of the hypercube -/

/-- `get_half_of_hypercube` = "the upper rows, in central-index order, first N" (`ValueError` beyond the number
available), provided no earlier node is `np.isclose` to a later upper node (`which_row_is_k(...)[0]` then finds
the row itself). -/
theorem selectHalf_eq_filter (tol atol rtol : K) (ha : 0 ≤ atol) (hr : 0 ≤ rtol) (P : List (List K))
    (hsep : NoEarlierClose tol atol rtol P) (N : Nat) :
    selectHalf tol atol rtol P P (some N) =
      if N ≤ (P.filter (upper tol)).length then .ok ((P.filter (upper tol)).take N) else .error "ValueError" := by
  unfold selectHalf
  rw [selectHalfIdx_eq ha hr hsep]
  have hl : (upperIdx tol P).length = (P.filter (upper tol)).length := by
    rw [← upperIdx_map_getD, List.length_map]
  simp only [Option.getD_some, hl]
  by_cases hN : N ≤ (P.filter (upper tol)).length
  · rw [if_neg (by omega), if_pos hN]
    show Except.ok _ = _
    rw [List.map_take, upperIdx_map_getD]
  · rw [if_pos (by omega), if_neg hN]; rfl

/-- The same without `N` (the whole half). -/
theorem selectHalf_all (tol atol rtol : K) (ha : 0 ≤ atol) (hr : 0 ≤ rtol) (P : List (List K))
    (hsep : NoEarlierClose tol atol rtol P) :
    selectHalf tol atol rtol P P none = .ok (P.filter (upper tol)) := by
  unfold selectHalf
  rw [selectHalfIdx_eq ha hr hsep]
  simp only [Option.getD_none, gt_iff_lt, lt_self_iff_false, if_false, List.take_length]
  show Except.ok _ = _
  rw [upperIdx_map_getD]

example : NoEarlierClose (1 : ℚ) 0 0 [[1, 0], [-1, 0], [0, 2], [0, -2]] := by
  intro i j hij hj hu
  simp only [List.length_cons, List.length_nil] at hj
  have : j = 1 ∨ j = 2 ∨ j = 3 := by omega
  rcases this with rfl | rfl | rfl
  · have : i = 0 := by omega
    subst this; norm_num [rowClose, isclose, absK]
  · have : i = 0 ∨ i = 1 := by omega
    rcases this with rfl | rfl <;> norm_num [rowClose, isclose, absK]
  · have : i = 0 ∨ i = 1 ∨ i = 2 := by omega
    rcases this with rfl | rfl | rfl <;> norm_num [rowClose, isclose, absK]

/-- *"no two rows represent the same rotation"*, set level: on a duplicate-free, negation-closed node list without
the origin the selected half contains exactly one of each antipodal pair, exactly half of the nodes, in index order. -/
theorem half_one_of_each (tol : K) (ht : 0 ≤ tol) (P : List (List K)) (hnd : P.Nodup)
    (hneg : ∀ p ∈ P, neg p ∈ P) (hgap : ∀ p ∈ P, Gap tol p ∧ NonZero p) :
    (∀ p ∈ P, (p ∈ P.filter (upper tol) ↔ neg p ∉ P.filter (upper tol))) ∧
    2 * (P.filter (upper tol)).length = P.length ∧ (P.filter (upper tol)).Sublist P :=
  ⟨fun _ hp => half_mem_iff ht hneg hgap hp, half_length ht hnd hneg hgap, List.filter_sublist⟩

example : ([[1, 0], [-1, 0], [0, 2], [0, -2]] : List (List ℚ)).Nodup ∧
    (∀ p ∈ ([[1, 0], [-1, 0], [0, 2], [0, -2]] : List (List ℚ)), neg p ∈ ([[1, 0], [-1, 0], [0, 2], [0, -2]] : List (List ℚ))) := by
  constructor <;> decide

/-! ### distinct unit points: radial projection from a polytope surface -/

/-- `proj_injective_cube`: radial projection is injective on the boundary of the cube / hypercube
(`x = λy`, `λ > 0`, `‖x‖∞ = ‖y‖∞ > 0 ⇒ x = y`), so distinct lattice nodes give distinct unit points. -/
theorem proj_injective_cube (x y : List K) (a b : K) (ha : 0 < a) (hb : 0 < b) (hxy : scale a x = scale b y)
    (hn : supNorm x = supNorm y) (hpos : 0 < supNorm y) : x = y :=
  gauge_injective supNorm supNorm_homogeneous ha hb hxy hn hpos

example : scale (2 : ℚ) [1, -1, 0] = scale 2 [1, -1, 0] ∧ (0 : ℚ) < supNorm ([1, -1, 0] : List ℚ) := by
  norm_num [scale, supNorm, maxK, absK]

/-- why equal sup-norm is a hypothesis: same ray, different cubes -/
example : scale (2 : ℚ) [1, -1, 0] = scale 1 [2, -2, 0] ∧ supNorm ([1, -1, 0] : List ℚ) ≠ supNorm ([2, -2, 0] : List ℚ) := by
  norm_num [scale, supNorm, maxK, absK]

/-- The same for any solid given by a positively homogeneous gauge (the icosahedron: maximum of its 20 face
functionals); sup-norm is the instance used for cube3D / cube4D. -/
theorem proj_injective_gauge (g : List K → K) (hg : Homogeneous g) (x y : List K) (a b : K) (ha : 0 < a) (hb : 0 < b)
    (hxy : scale a x = scale b y) (hgx : g x = g y) (hpos : 0 < g y) : x = y :=
  gauge_injective g hg ha hb hxy hgx hpos

/-- The gauge `p ↦ max_f (n_f · p)` of a solid given by any list of face functionals is positively homogeneous
(instances: `±e_i` for the cubes, the 20 functionals of `Model/IcoExact.lean` for the icosahedron), so
`proj_injective_gauge`, `polytope_rows_distinct` and `half_rows_distinct_rotations` apply to every such solid. -/
theorem gauge_of_faces_homogeneous (normals : List (List K)) (c : K) (hc : 0 < c) (p : List K) :
    gaugeOf normals (scale c p) = c * gaugeOf normals p :=
  gaugeOf_homogeneous normals c hc p

/-- *"the grid has exactly N rows … pairwise distinct"* for the direction grids made from a polytope
(`get_nodes(N, projection=True)`): if the nodes (in central-index order) are duplicate-free points of one level set
of a gauge and `proj` scales each radially, the first `N` projected rows are `N` pairwise different points —
for every N, every level, every index order. -/
theorem polytope_rows_distinct (g : List K → K) (hg : Homogeneous g) (P : List (List K)) (r : K) (hr : 0 < r)
    (hP : ∀ p ∈ P, g p = r) (hnd : P.Nodup) (proj : List K → List K) (hproj : RadialOn proj P) (N : Nat)
    (hN : N ≤ P.length) :
    getNodes (P.map proj) (some N) = .ok ((P.take N).map proj) ∧
    ((P.take N).map proj).length = N ∧ ((P.take N).map proj).Nodup := by
  refine ⟨?_, by simp; omega, map_proj_nodup hg hr hP hnd hproj (List.take_sublist N P)⟩
  rw [getNodes_some (by simpa using hN), List.map_take]

example : (∀ p ∈ ([[1, 0, -1], [0, 1, 1], [-1, 1, 0]] : List (List ℚ)), supNorm p = 1) ∧
    ([[1, 0, -1], [0, 1, 1], [-1, 1, 0]] : List (List ℚ)).Nodup ∧
    RadialOn (scale (2 : ℚ)) [[1, 0, -1], [0, 1, 1], [-1, 1, 0]] := by
  refine ⟨?_, by decide, fun p _ => ⟨2, by norm_num, rfl⟩⟩
  intro p hp
  simp only [List.mem_cons, List.not_mem_nil, or_false] at hp
  rcases hp with rfl | rfl | rfl <;> norm_num [supNorm, maxK, absK]

/-- Ordering more points than the level has raises `ValueError` (`_check_N`). -/
theorem getNodes_valueError (nodes : List (List K)) (N : Nat) (h : nodes.length < N) :
    getNodes nodes (some N) = .error "ValueError" :=
  getNodes_too_many h

/-- `IcoAndCube3DRotations._gen_grid`: the loop divides until the first level with at least `N` nodes and returns
exactly the first `N` projected nodes of that level. -/
theorem gen3D_spec (projAt : Nat → List (List K)) (N fuel : Nat) (h : ∃ l, l ≤ fuel ∧ N ≤ (projAt l).length) :
    ∃ ℓ, gen3D projAt N fuel = .ok ((projAt ℓ).take N) ∧ ((projAt ℓ).take N).length = N ∧
      N ≤ (projAt ℓ).length ∧ ∀ l, l < ℓ → (projAt l).length < N := by
  obtain ⟨l, hl, hN⟩ := h
  have := divisionsNeeded_spec (fun l => (projAt l).length) N fuel 0 (by intro l h; omega) ⟨l, by omega, by omega, hN⟩
  refine ⟨_, ?_, ?_, this.1, this.2⟩
  · unfold gen3D; exact getNodes_some this.1
  · rw [List.length_take]; exact Nat.min_eq_left this.1

example : ∃ l, l ≤ 3 ∧ 2 ≤ ((fun l => List.replicate (l + 1) ([0, 0, 1] : List ℚ)) l).length := ⟨1, by omega, by simp⟩

/-- *"no two rows represent the same rotation"* for cube4D / fulldiv: the rows
`get_half_of_hypercube(N, projection=True)` are pairwise neither equal nor antipodal, all lie in the canonical half,
and there are exactly `N` of them — for every N, every level, every index order of a node list that is
duplicate-free, negation-closed and on one level set of a symmetric gauge. -/
theorem half_rows_distinct_rotations (tol : K) (ht : 0 ≤ tol) (g : List K → K) (hg : Homogeneous g)
    (hsym : ∀ p, g (neg p) = g p) (P : List (List K)) (r : K) (hr : 0 < r) (hP : ∀ p ∈ P, g p = r)
    (hnd : P.Nodup) (hneg : ∀ p ∈ P, neg p ∈ P) (hgap : ∀ p ∈ P, Gap tol p)
    (proj : List K → List K) (hproj : RadialOn proj P) (N : Nat) (hN : N ≤ (P.filter (upper tol)).length) :
    let rows := ((P.filter (upper tol)).take N).map proj
    rows.length = N ∧ rows.Pairwise (fun a b => a ≠ b ∧ a ≠ neg b) ∧ ∀ a ∈ rows, upper 0 a = true := by
  intro rows
  have hnz : ∀ p ∈ P, NonZero p := by
    intro p hp
    by_contra hc
    have hz : ∀ x ∈ p, x = 0 := by
      intro x hx; by_contra h0; exact hc ⟨x, hx, h0⟩
    have : scale 2 p = scale 1 p := by
      unfold scale; apply List.map_congr_left; intro x hx; rw [hz x hx]; simp
    have h2 := hg 2 (by norm_num) p
    rw [this, hg 1 (by norm_num) p, hP p hp] at h2
    linarith
  have hsub : ((P.filter (upper tol)).take N).Sublist P :=
    (List.take_sublist _ _).trans List.filter_sublist
  refine ⟨by simp [rows]; exact hN, ?_, ?_⟩
  · rw [List.pairwise_map]
    have hnd' : ((P.filter (upper tol)).take N).Nodup := hnd.sublist hsub
    refine List.Pairwise.imp_of_mem ?_ hnd'
    intro a b ha hb hab
    have haF := List.mem_of_mem_take ha
    have hbF := List.mem_of_mem_take hb
    have haP := (List.mem_filter.mp haF).1
    have hbP := (List.mem_filter.mp hbF).1
    constructor
    · intro h; exact hab (proj_injOn hg hr hP hproj haP hbP h)
    · intro h
      have hab' := proj_antipodal hg hsym hr hP hproj haP hbP h
      have := (half_mem_iff ht hneg (fun p hp => ⟨hgap p hp, hnz p hp⟩) hbP).mp hbF
      rw [← hab'] at this
      exact this haF
  · intro a ha
    obtain ⟨p, hp, rfl⟩ := List.mem_map.mp ha
    have hpF := List.mem_of_mem_take hp
    obtain ⟨hpP, hup⟩ := List.mem_filter.mp hpF
    obtain ⟨c, hc, hcp⟩ := hproj p hpP
    rw [hcp, upper_scale_of_gap ht hc (hgap p hpP)]; exact hup

example : (∀ p ∈ ([[1, 0], [0, -1], [-1, 0], [0, 1]] : List (List ℚ)), supNorm p = 1) ∧
    ([[1, 0], [0, -1], [-1, 0], [0, 1]] : List (List ℚ)).Nodup ∧
    (∀ p ∈ ([[1, 0], [0, -1], [-1, 0], [0, 1]] : List (List ℚ)), neg p ∈ ([[1, 0], [0, -1], [-1, 0], [0, 1]] : List (List ℚ))) ∧
    2 ≤ (([[1, 0], [0, -1], [-1, 0], [0, 1]] : List (List ℚ)).filter (upper 0)).length := by
  refine ⟨?_, by decide, by decide, by decide⟩
  intro p hp
  simp only [List.mem_cons, List.not_mem_nil, or_false] at hp
  rcases hp with rfl | rfl | rfl | rfl <;> norm_num [supNorm, maxK, absK]

/-! ### the exact cube / hypercube lattice: all hypotheses discharged, every level, every N, every index order -/

/-- cube3D (and any dimension): for every level `m ≥ 1` and every duplicate-free list `L` of integer points on the
boundary of the cube `‖p‖∞ = m` (the vertices, or any part of the boundary lattice `cubeLattice d m`, in any order),
the first `N` normalised points are `N` pairwise different unit points. -/
theorem cube_lattice_rows_distinct (m : Nat) (hm : 0 < m) (L : List (List Int)) (hnd : L.Nodup)
    (hL : ∀ p ∈ L, supNorm p = (m : Int)) (proj : List K → List K)
    (hproj : RadialOn proj (L.map castPt)) (N : Nat) (hN : N ≤ L.length) :
    getNodes ((L.map castPt).map proj) (some N) = .ok (((L.map castPt).take N).map proj) ∧
    (((L.map castPt).take N).map proj).length = N ∧ (((L.map castPt).take N).map proj).Nodup := by
  apply polytope_rows_distinct supNorm supNorm_homogeneous (L.map castPt) (m : K) (by exact_mod_cast hm) _
    (hnd.map castPt_injective) proj hproj N (by simpa using hN)
  intro q hq
  obtain ⟨p, hp, rfl⟩ := List.mem_map.mp hq
  rw [supNorm_cast, hL p hp]; simp

example : ([[1, 1, -1], [1, -1, 0], [0, 0, 1]] : List (List Int)).Nodup ∧
    ∀ p ∈ ([[1, 1, -1], [1, -1, 0], [0, 0, 1]] : List (List Int)), supNorm p = ((1 : Nat) : Int) := by decide

/-- The lattice itself qualifies: `cubeLattice d m` is duplicate-free, on the cube boundary and closed under negation. -/
theorem cubeLattice_facts (d m : Nat) :
    (cubeLattice d m).Nodup ∧ (∀ p ∈ cubeLattice d m, supNorm p = (m : Int)) ∧
    (∀ p ∈ cubeLattice d m, p.map (fun x => -x) ∈ cubeLattice d m) :=
  ⟨nodup_cubeLattice d m, fun p hp => ((mem_cubeLattice d m p).mp hp).2, fun _ hp => neg_mem_cubeLattice hp⟩

/-- cube4D / fulldiv: for every level `m ≥ 1` and every ordering `L` of the whole boundary lattice of the hypercube
(any dimension `d`), the first `N` canonical nodes, normalised, are `N` rows that are pairwise neither equal nor
antipodal — no two represent the same rotation — all lie in the canonical half, and the canonical nodes are exactly
half of all nodes. -/
theorem hypercube_lattice_distinct_rotations (d m : Nat) (hm : 0 < m) (L : List (List Int))
    (hperm : L.Perm (cubeLattice d m)) (proj : List K → List K) (hproj : RadialOn proj (L.map castPt)) (N : Nat)
    (hN : N ≤ ((L.map (castPt (K := K))).filter (upper 0)).length) :
    let rows := (((L.map castPt).filter (upper (0 : K))).take N).map proj
    rows.length = N ∧ rows.Pairwise (fun a b => a ≠ b ∧ a ≠ neg b) ∧ (∀ a ∈ rows, upper 0 a = true) ∧
    2 * ((L.map (castPt (K := K))).filter (upper 0)).length = (cubeLattice d m).length := by
  obtain ⟨hnd0, hs0, hneg0⟩ := cubeLattice_facts d m
  have hmem : ∀ p, p ∈ L ↔ p ∈ cubeLattice d m := fun p => hperm.mem_iff
  have hnd : (L.map (castPt (K := K))).Nodup := (hperm.nodup_iff.mpr hnd0).map castPt_injective
  have hP : ∀ q ∈ L.map (castPt (K := K)), supNorm q = (m : K) := by
    intro q hq
    obtain ⟨p, hp, rfl⟩ := List.mem_map.mp hq
    rw [supNorm_cast, hs0 p ((hmem p).mp hp)]; simp
  have hneg : ∀ q ∈ L.map (castPt (K := K)), neg q ∈ L.map (castPt (K := K)) := by
    intro q hq
    obtain ⟨p, hp, rfl⟩ := List.mem_map.mp hq
    rw [← castPt_neg]
    exact List.mem_map.mpr ⟨_, (hmem _).mpr (hneg0 p ((hmem p).mp hp)), rfl⟩
  have hmK : (0 : K) < (m : K) := by exact_mod_cast hm
  have h := half_rows_distinct_rotations (0 : K) (le_refl 0) supNorm supNorm_homogeneous supNorm_neg
    (L.map castPt) (m : K) hmK hP hnd hneg (fun q _ => gap_zero q) proj hproj N hN
  have hnz : ∀ q ∈ L.map (castPt (K := K)), Gap 0 q ∧ NonZero q := by
    intro q hq
    refine ⟨gap_zero q, ?_⟩
    by_contra hc
    have hz : ∀ x ∈ q, x = 0 := by
      intro x hx; by_contra h0; exact hc ⟨x, hx, h0⟩
    have h0 : supNorm q = 0 := by
      have hq0 : q = scale 0 q := by
        unfold scale
        conv_lhs => rw [← List.map_id q]
        apply List.map_congr_left; intro x hx; rw [hz x hx]; simp
      rw [hq0, supNorm_scale (le_refl 0)]; simp
    rw [hP q hq] at h0
    exact (ne_of_gt hmK) h0
  refine ⟨h.1, h.2.1, h.2.2, ?_⟩
  rw [(half_one_of_each (0 : K) (le_refl 0) (L.map castPt) hnd hneg hnz).2.1, List.length_map, hperm.length_eq]

example : (cubeLattice 2 1).Perm (cubeLattice 2 1) ∧ RadialOn (scale (1 : ℚ)) ((cubeLattice 2 1).map castPt) ∧
    3 ≤ (((cubeLattice 2 1).map (castPt (K := ℚ))).filter (upper 0)).length :=
  ⟨List.Perm.refl _, fun p _ => ⟨1, by norm_num, rfl⟩, by decide⟩

/-- Finite table (kernel evaluation, labelled as such): node counts of the hypercube levels 0..3 in the exact model
are 16, 80, 544, 4160, i.e. twice the `fulldiv` table 8, 40, 272, 2080, and equal `hypercubeCount`. -/
theorem hypercube_counts_table :
    (cubeVertices 4).length = 16 ∧ (cubeLattice 4 1).length = 80 ∧ (cubeLattice 4 2).length = 544 ∧
    (cubeLattice 4 4).length = 4160 ∧
    [hypercubeCount 0, hypercubeCount 1, hypercubeCount 2, hypercubeCount 3] = [16, 80, 544, 4160] := by
  decide +kernel

/-- Finite table for the icosahedron (kernel evaluation in `ℤ[φ]`, labelled as such): after 0, 1, 2 divisions the exact
barycentric node list has 12, 42, 162 different points and every one lies on the same level set `2^L·g₀` of the
gauge `max_f (n_f · p)` of the 20 faces — the hypothesis under which `polytope_rows_distinct` (with
`gauge_of_faces_homogeneous`) gives pairwise different unit points.  Levels 3 (and 4) are checked by the same
executable definitions in the driver on every run (op `ico_nodes`), not by the kernel.

OPEN (not proved): the statement for every level `L`, and the order-embedding of `ℤ[φ]` into a linearly ordered
field that would make `polytope_rows_distinct` literally applicable to `IcoExact.nodes L`. -/
theorem ico_exact_levels_table_partial :
    ((IcoExact.nodes 0).length, (IcoExact.nodes 1).length, (IcoExact.nodes 2).length) = (12, 42, 162) ∧
    IcoExact.onSurface 0 (IcoExact.nodes 0) = true ∧ IcoExact.onSurface 1 (IcoExact.nodes 1) = true ∧
    IcoExact.onSurface 2 (IcoExact.nodes 2) = true := by
  decide +kernel

/- OPEN (not a theorem, by design §5.7/§7): the separation clause
     ∀ N ≥ 2, minimum chord of the first N rows ≥ 1/√N          (ico, cube3D)
     ∀ N ≥ 2, minimum chord of the double cover of the first N rows ≥ 0.6/∛N   (cube4D, fulldiv)
   It is decided exactly by `sepDirOk` / `sepRotVerdict` (integer resp. ℤ[φ] arithmetic; the cube root is bracketed
   by rationals 10⁻³⁰ apart) for every prefix N of every explored level, on every run. -/

/-- Capstone for `Cube4DRotations._gen_grid` at the level the loop stops at (`P` = projected nodes in index order,
at least `N` of them upper): the generated array is `H ++ -H` with `H` the first `N` upper rows; it has `2N` rows,
and `get_grid_as_array(only_upper=True)` returns exactly `H`. -/
theorem cube4D_grid (tol atol rtol : K) (ht : 0 ≤ tol) (ha : 0 ≤ atol) (hr : 0 ≤ rtol)
    (projAt : Nat → List (List K)) (N fuel : Nat)
    (hsep : ∀ l, NoEarlierClose tol atol rtol (projAt l))
    (h4 : ∀ l, ∀ q ∈ projAt l, q.length = 4 ∧ Gap tol q)
    (hen : ∃ l, l ≤ fuel ∧ N ≤ ((projAt l).filter (upper tol)).length) :
    ∃ ℓ, let H := ((projAt ℓ).filter (upper tol)).take N
      genCube4D tol atol rtol projAt N fuel = .ok (H ++ H.map neg) ∧ H.length = N ∧
      (H ++ H.map neg).length = 2 * N ∧ gridAsArray tol (H ++ H.map neg) true = H ∧
      (∀ l, l < ℓ → ((projAt l).filter (upper tol)).length < N) := by
  have hlen : ∀ l, halfLen tol atol rtol projAt l = ((projAt l).filter (upper tol)).length := by
    intro l
    unfold halfLen
    rw [selectHalfIdx_eq ha hr (hsep l)]
    simp only [Option.getD_none, gt_iff_lt, lt_self_iff_false, if_false, List.take_length]
    rw [← upperIdx_map_getD, List.length_map]
  obtain ⟨l, hl, hN⟩ := hen
  have hd := divisionsNeeded_spec (halfLen tol atol rtol projAt) N fuel 0 (by intro l h; omega)
    ⟨l, by omega, by omega, by rw [hlen]; exact hN⟩
  set ℓ := divisionsNeeded (halfLen tol atol rtol projAt) N fuel 0 with hℓ
  rw [hlen] at hd
  refine ⟨ℓ, ?_⟩
  intro H
  have hHlen : H.length = N := by simp [H]; exact hd.1
  have hH4 : ∀ q ∈ H, q.length = 4 := by
    intro q hq
    exact (h4 ℓ q (List.mem_filter.mp (List.mem_of_mem_take hq)).1).1
  have hHup : ∀ q ∈ H, Gap tol q ∧ upper tol q = true := by
    intro q hq
    have := List.mem_filter.mp (List.mem_of_mem_take hq)
    exact ⟨(h4 ℓ q this.1).2, this.2⟩
  refine ⟨?_, hHlen, by simp [hHlen]; omega, (only_upper_of_doubleCover tol ht H hHup).1, ?_⟩
  · unfold genCube4D
    show (do let half ← selectHalf tol atol rtol (projAt ℓ) (projAt ℓ) (some N); doubleCover N half) = _
    rw [selectHalf_eq_filter tol atol rtol ha hr _ (hsep ℓ), if_pos hd.1]
    show doubleCover N H = _
    rw [← hHlen]; exact doubleCover_self hH4
  · intro l hl; have := hd.2 l hl; rwa [hlen] at this

/-- the 16 vertices of the hypercube (level 0) satisfy the hypotheses of `cube4D_grid` (N = 5) and `fulldiv_grid` (N = 8) -/
example : let V : List (List ℚ) := (cubeVertices 4).map castPt
    NoEarlierClose (0 : ℚ) 0 0 V ∧ (∀ q ∈ V, q.length = 4 ∧ Gap 0 q) ∧ (V.filter (upper 0)).length = 8 ∧
    fulldivLevel 8 = .ok 0 := by
  intro V
  refine ⟨noEarlierClose_of_nodup 0 (by decide), ?_, by decide, by decide⟩
  intro q hq
  refine ⟨?_, gap_zero q⟩
  revert q; decide

/-- `FullDivCube4DRotations`: for an admissible `N` (level `ℓ` of the table) whose level has exactly `N` canonical
nodes (see `hypercube_counts_table`), the generated array is the whole canonical half followed by its negatives. -/
theorem fulldiv_grid (tol atol rtol : K) (ht : 0 ≤ tol) (ha : 0 ≤ atol) (hr : 0 ≤ rtol)
    (projAt : Nat → List (List K)) (N ℓ : Nat) (hl : fulldivLevel N = .ok ℓ)
    (hsep : NoEarlierClose tol atol rtol (projAt ℓ)) (h4 : ∀ q ∈ projAt ℓ, q.length = 4 ∧ Gap tol q)
    (hcount : ((projAt ℓ).filter (upper tol)).length = N) :
    let H := (projAt ℓ).filter (upper tol)
    genFulldiv tol atol rtol projAt N = .ok (H ++ H.map neg) ∧ (H ++ H.map neg).length = 2 * N ∧
      gridAsArray tol (H ++ H.map neg) true = H := by
  intro H
  have hH4 : ∀ q ∈ H, q.length = 4 := fun q hq => (h4 q (List.mem_filter.mp hq).1).1
  have hHup : ∀ q ∈ H, Gap tol q ∧ upper tol q = true := fun q hq =>
    ⟨(h4 q (List.mem_filter.mp hq).1).2, (List.mem_filter.mp hq).2⟩
  refine ⟨?_, by simp [H, hcount]; omega, (only_upper_of_doubleCover tol ht H hHup).1⟩
  unfold genFulldiv
  rw [hl]
  show (do let half ← selectHalf tol atol rtol (projAt ℓ) (projAt ℓ) none; doubleCover N half) = _
  rw [selectHalf_all tol atol rtol ha hr _ hsep]
  show doubleCover N H = _
  rw [← hcount]; exact doubleCover_self hH4

example : fulldivLevel 40 = .ok 1 := by decide

/-! ### post-generation assertions, random grids, table, zero grids -/

/-- *"exactly N rows of unit norm"*: when `gen_grid` passes its assertions the array is returned unchanged, has
`N` (3-D) or `2N` (4-D) rows of the right width, each with `lo ≤ ‖row‖² ≤ hi`
(`lo = (1-2·10⁻⁵)²`, `hi = (1+2·10⁻⁵)²`); otherwise it raises `AssertionError`. -/
theorem genCheck_spec (dims N : Nat) (lo hi : K) (G : List (List K)) (hd : dims = 3 ∨ dims = 4) :
    (genCheck dims N lo hi G = .ok G ∧ G.length = (if dims = 3 then N else 2 * N) ∧
      ∀ r ∈ G, r.length = dims ∧ lo ≤ normSq r ∧ normSq r ≤ hi) ∨
    genCheck dims N lo hi G = .error "AssertionError" := by
  unfold genCheck
  simp only [hd, decide_true, Bool.not_true, Bool.false_eq_true, if_false]
  by_cases h1 : G.length = (if dims = 3 then N else 2 * N)
  · rw [if_neg (by simpa using h1)]
    by_cases h2 : (G.all fun r => r.length == dims) = true
    · simp only [h2, Bool.not_true, Bool.false_eq_true, if_false]
      by_cases h3 : (G.all fun r => decide (lo ≤ normSq r) && decide (normSq r ≤ hi)) = true
      · left
        simp only [h3, Bool.not_true, Bool.false_eq_true, if_false]
        refine ⟨rfl, h1, ?_⟩
        intro r hr
        rw [List.all_eq_true] at h2 h3
        have a := h2 r hr
        have b := h3 r hr
        simp only [beq_iff_eq] at a
        simp only [Bool.and_eq_true, decide_eq_true_eq] at b
        exact ⟨a, b.1, b.2⟩
      · right; simp [h3]; rfl
    · right; simp [h2]; rfl
  · right; rw [if_pos (by simpa using h1)]; rfl

/-- `random_sphere_points`: the rotated z vector has unit norm for every non-zero quaternion (exact arithmetic). -/
theorem rotZ_unit (x y z w : K) (h : x * x + y * y + z * z + w * w ≠ 0) :
    normSq (rotZ [x, y, z, w]) = 1 := by
  simp only [rotZ, normSq, dot]
  have key : (x * z + y * w + (x * z + y * w)) * (x * z + y * w + (x * z + y * w))
      + ((y * z - x * w + (y * z - x * w)) * (y * z - x * w + (y * z - x * w))
      + ((w * w + z * z - x * x - y * y) * (w * w + z * z - x * x - y * y)))
      = (x * x + y * y + z * z + w * w) * (x * x + y * y + z * z + w * w) := by ring
  rw [div_mul_div_comm, div_mul_div_comm, div_mul_div_comm, add_zero, ← add_div, ← add_div, key,
    div_self (mul_ne_zero h h)]

example : (1 : ℚ) * 1 + 2 * 2 + (-3) * (-3) + 0 * 0 ≠ 0 := by norm_num

/-- `RandomQRotations._gen_grid`: `N` canonical representatives followed by their negatives. -/
theorem randomQ_layout (tol : K) (Q F : List (List K)) (N : Nat) (h : genRandomQ tol Q N = .ok F) :
    Q.length = N ∧ F = Q.map (canon tol) ++ (Q.map (canon tol)).map neg ∧ F.length = 2 * N := by
  unfold genRandomQ hemisphereSet at h
  split at h
  · have h' : doubleCover N (Q.map (canon tol)) = .ok F := h
    obtain ⟨hF, hN⟩ := doubleCover_ok h'
    rw [List.length_map] at hN
    refine ⟨hN, hF, ?_⟩
    rw [hF]; simp; omega
  · cases h

example : genRandomQ (0 : ℚ) [[0, -2, 1, 0], [3, 0, 0, -1]] 2
    = .ok [[0, 2, -1, 0], [3, 0, 0, -1], [0, -2, 1, 0], [-3, 0, 0, 1]] := by decide

/-- The `fulldiv` table: `N` is accepted iff it is one of 8, 40, 272, 2080, and then the number of divisions `L`
is the one whose half-hypercube has exactly `N` nodes (`2N` = node count of level `L`). -/
theorem fulldiv_table (N : Nat) :
    (N ∈ [8, 40, 272, 2080] ∧ ∃ L, fulldivLevel N = .ok L ∧ 2 * N = hypercubeCount L) ∨
    (N ∉ [8, 40, 272, 2080] ∧ fulldivLevel N = .error "ValueError") := by
  by_cases h : N ∈ [8, 40, 272, 2080]
  · left
    refine ⟨h, ?_⟩
    simp only [List.mem_cons, List.not_mem_nil, or_false] at h
    rcases h with rfl | rfl | rfl | rfl
    · exact ⟨0, by decide, by decide⟩
    · exact ⟨1, by decide, by decide⟩
    · exact ⟨2, by decide, by decide⟩
    · exact ⟨3, by decide, by decide⟩
  · right
    refine ⟨h, ?_⟩
    unfold fulldivLevel
    have : [8, 40, 272, 2080].idxOf? N = none := by
      rw [List.idxOf?_eq_none_iff]; exact h
    rw [this]; rfl

/-- *"a grid requested by name with N=1 is the identity rotation or the z direction"*: a named grid with `N = 1`
reaches the zero algorithm, whose grid is `[[0,0,1]]` resp. `[[0,0,0,1]]` (double cover `[[0,0,0,1],[0,0,0,-1]]`,
of which `only_upper` returns the identity alone). -/
theorem named_N1 (alg : String) (tol : K) (ht : 0 ≤ tol) (ht1 : tol < 1) :
    namedAlg alg 1 3 = "zero3D" ∧ namedAlg alg 1 4 = "zero4D" ∧
    (zero3D : List (List K)) = [[0, 0, 1]] ∧
    (zero4D : Except String (List (List K))) = .ok [[0, 0, 0, 1], [0, 0, 0, -1]] ∧
    gridAsArray tol ([[0, 0, 0, 1], [0, 0, 0, -1]] : List (List K)) true = [[0, 0, 0, 1]] := by
  refine ⟨rfl, rfl, rfl, ?_, ?_⟩
  · have := doubleCover_self (K := K) (G := [[0, 0, 0, 1]]) (by simp)
    simpa [zero4D, neg] using this
  · have hG : ∀ q ∈ ([[0, 0, 0, 1]] : List (List K)), Gap tol q ∧ upper tol q = true := by
      intro q hq
      simp only [List.mem_singleton] at hq
      subst hq
      constructor
      · intro x hx
        simp only [List.mem_cons, List.not_mem_nil, or_false] at hx
        rcases hx with rfl | rfl | rfl | rfl
        · left; rfl
        · left; rfl
        · left; rfl
        · right; simpa using ht1
      · rw [Molgri.Hemi.upper_spec]
        refine ⟨3, by simp, ?_, by simp⟩
        intro j hj
        have : j = 0 ∨ j = 1 ∨ j = 2 := by omega
        rcases this with rfl | rfl | rfl <;> simpa using ht
    have := (only_upper_of_doubleCover tol ht [[0, 0, 0, 1]] hG).1
    simpa [neg] using this

end Molgri.C07
