/-
C08 — grids and their geometry are reproducible, prefix-stable and history-independent.

Property theorems about `Molgri.History` (the state-machine model of `polytopes.py` node ordering and cache,
`rotobj.py` grid construction, `voronoi.py` helper points and getters).  Quantifiers: every external numerical function
(`ext : Ext Γ Pt W O`: subdivision geometry, normalisation, hemisphere test, scipy/qhull getters), every generator
(`rng : Rng R W`: any `seed`, any `shuffle`, any `draw`), every initial generator state `r₀`, every history
`ops : List Op` (arbitrary interleavings of reseeding, draws, polytope construction / subdivision / node getters,
grid construction with any of the 8 algorithms and any `N`, the 8 getters in any order and repetition, repeated
`gen_grid()` that rebuilds the Voronoi object).
-/
import Molgri.Lemmas.History

set_option linter.unusedSectionVars false

namespace Molgri.C08
open Molgri.History

variable {Γ Pt W O R : Type} [DecidableEq Pt]

/-! ### what a history has created: the specification fields of the live objects -/

/-- `(kind, current_level)` of every live polytope and `(gen_algorithm, N)` of every live grid object. -/
structure Specs where
  polys : List (PolyKind × Nat)
  grids : List (Alg × Nat)

def specsOf (s : State Γ Pt R) : Specs :=
  ⟨s.polys.map (fun P => (P.kind, P.level)), s.grids.map (fun G => (G.alg, G.N))⟩

/-- The value of an op computed WITHOUT any history: on fresh canonical objects (built from generator state `seed 0`,
never read before) that have the same specification fields.  No generator state, no cache, no filtered list enters. -/
def freshOut (ext : Ext Γ Pt W O) (rng : Rng R W) (sp : Specs) : Op → Res Pt O
  | .reseed _ => .unit
  | .draw _ => .unit
  | .newPoly _ => .handle sp.polys.length
  | .divide h =>
    match sp.polys[h]? with
    | none => .err .noObject
    | some _ => .unit
  | .nodes h N proj =>
    match sp.polys[h]? with
    | none => .err .noObject
    | some (k, l) =>
      match (getNodes (canonPoly ext rng k (l - 1)) N proj).2 with
      | .ok l => .pts l
      | .error e => .err e
  | .half h N proj =>
    match sp.polys[h]? with
    | none => .err .noObject
    | some (k, l) =>
      match (halfOfHypercube ext (canonPoly ext rng k (l - 1)) N proj).2 with
      | .ok l => .pts l
      | .error e => .err e
  | .grid a N =>
    match (createGrid ext rng (rng.seed 0) a N).2 with
    | .error e => .err e
    | .ok _ => .handle sp.grids.length
  | .get h g =>
    match sp.grids[h]? with
    | none => .err .noObject
    | some (a, N) =>
      match (createGrid ext rng (rng.seed 0) a N).2 with
      | .error e => .err e
      | .ok G =>
        match (callGetter ext G g).2 with
        | .ok o => .out o
        | .error e => .err e
  | .regen h =>
    match sp.grids[h]? with
    | none => .err .noObject
    | some (a, N) =>
      match (createGrid ext rng (rng.seed 0) a N).2 with
      | .error e => .err e
      | .ok G => .out (ext.arr G.grid)

/-- How the specification fields evolve: a function of the op alone (no generator, no cache). -/
def specStep (ext : Ext Γ Pt W O) (rng : Rng R W) (sp : Specs) : Op → Specs
  | .newPoly k => { sp with polys := sp.polys ++ [(k, 1)] }
  | .divide h =>
    match sp.polys[h]? with
    | none => sp
    | some (k, l) => { sp with polys := sp.polys.set h (k, l + 1) }
  | .grid a N =>
    match (createGrid ext rng (rng.seed 0) a N).2 with
    | .error _ => sp
    | .ok G => { sp with grids := sp.grids ++ [(G.alg, G.N)] }
  | _ => sp

/-- The specification fields after a history, computed from the op list alone. -/
def historySpecs (ext : Ext Γ Pt W O) (rng : Rng R W) (ops : List Op) : Specs :=
  ops.foldl (specStep ext rng) ⟨[], []⟩

/-! ### reproducibility of construction -/

/-- "Creating a grid with the same algorithm and N always returns bit-identical coordinates, whatever was computed
before in the process, whatever the state of the global random generator": the created object (array, polytope,
Voronoi helper points) — or the exception — is the same for any two generator states, hence for any two histories. -/
theorem create_independent_of_generator (ext : Ext Γ Pt W O) (rng : Rng R W) (r r' : R) (a : Alg) (N : Nat) :
    (createGrid ext rng r a N).2 = (createGrid ext rng r' a N).2 :=
  createGrid_rng ext rng r r' a N

/-- The same for polytopes: construction and subdivision overwrite the generator state before they use it. -/
theorem polytope_independent_of_generator (ext : Ext Γ Pt W O) (rng : Rng R W) (r r' : R) (k : PolyKind)
    (P : Poly Γ Pt) :
    newPoly ext rng r k = newPoly ext rng r' k ∧ divideEdges ext rng r P = divideEdges ext rng r' P :=
  ⟨rfl, rfl⟩

/-! ### outputs of every op of every history -/

/-- One step from a state satisfying the invariant: the output is the fresh output for the specification fields. -/
theorem step_output_fresh (ext : Ext Γ Pt W O) (rng : Rng R W) (s : State Γ Pt R) (op : Op)
    (hp : PolysOk ext rng s) (hgr : GridsOk ext rng s) :
    (step ext rng s op).2 = freshOut ext rng (specsOf s) op := by
  cases op with
  | reseed k => rfl
  | draw k => rfl
  | newPoly k => simp [step, freshOut, specsOf]
  | divide i =>
    simp only [step, freshOut, specsOf, List.getElem?_map]
    cases s.polys[i]? <;> rfl
  | nodes i N proj =>
    simp only [step, freshOut, specsOf, List.getElem?_map]
    cases hP : s.polys[i]? with
    | none => rfl
    | some P =>
      obtain ⟨d, hc, hk⟩ := hp P (List.mem_of_getElem? hP)
      simp only [Option.map_some]
      rw [PolyOk.level hc, Nat.add_sub_cancel, getNodes_res P N proj hk,
        getNodes_res _ N proj (canonPoly_cacheOk ext rng P.kind d), hc.2.2.1]
      cases getNodesPure (canonPoly ext rng P.kind d).nodes N proj <;> rfl
  | half i N proj =>
    simp only [step, freshOut, specsOf, List.getElem?_map]
    cases hP : s.polys[i]? with
    | none => rfl
    | some P =>
      obtain ⟨d, hc, hk⟩ := hp P (List.mem_of_getElem? hP)
      simp only [Option.map_some]
      rw [PolyOk.level hc, Nat.add_sub_cancel, half_res ext P N proj hk,
        half_res ext _ N proj (canonPoly_cacheOk ext rng P.kind d), hc.2.2.1, canonPoly_kind]
      cases halfPure ext P.kind (canonPoly ext rng P.kind d).nodes N proj <;> rfl
  | grid a N =>
    simp only [step, freshOut, specsOf, List.length_map]
    rw [createGrid_rng ext rng s.rng (rng.seed 0) a N]
    cases (createGrid ext rng (rng.seed 0) a N).2 <;> rfl
  | get i g =>
    simp only [step, freshOut, specsOf, List.getElem?_map]
    cases hG : s.grids[i]? with
    | none => rfl
    | some G =>
      obtain ⟨G₀, h1, h2⟩ := hgr G (List.mem_of_getElem? hG)
      simp only [Option.map_some, h1]
      rw [(callGetter_sim ext G G₀ g h2).1]
      cases (callGetter ext G₀ g).2 <;> rfl
  | regen i =>
    simp only [step, freshOut, specsOf, List.getElem?_map]
    cases hG : s.grids[i]? with
    | none => rfl
    | some G =>
      obtain ⟨G₀, h1, h2⟩ := hgr G (List.mem_of_getElem? hG)
      simp only [Option.map_some, h1, h2.2.2.2.1]

/-- The specification fields evolve by `specStep`, for every state (no invariant needed). -/
theorem step_specs (ext : Ext Γ Pt W O) (rng : Rng R W) (s : State Γ Pt R) (op : Op) :
    specsOf (step ext rng s op).1 = specStep ext rng (specsOf s) op := by
  cases op with
  | reseed k => rfl
  | draw k => rfl
  | newPoly k => simp [step, specStep, specsOf, newPoly, endOfDivision]
  | divide i =>
    simp only [step, specStep, specsOf, List.getElem?_map]
    cases hP : s.polys[i]? with
    | none => rfl
    | some P => simp [List.map_set, divideEdges_kind, divideEdges_level]
  | nodes i N proj =>
    simp only [step, specStep, specsOf]
    cases hP : s.polys[i]? with
    | none => rfl
    | some P =>
      have hc := getNodes_core P N proj
      simp only [List.map_set, hc.1, hc.2.2.2.1]
      rw [set_of_getElem?]
      rw [List.getElem?_map, hP]; rfl
  | half i N proj =>
    simp only [step, specStep, specsOf]
    cases hP : s.polys[i]? with
    | none => rfl
    | some P =>
      have hc := half_core ext P N proj
      simp only [List.map_set, hc.1, hc.2.2.2.1]
      rw [set_of_getElem?]
      rw [List.getElem?_map, hP]; rfl
  | grid a N =>
    simp only [step, specStep, specsOf]
    rw [createGrid_rng ext rng s.rng (rng.seed 0) a N]
    cases (createGrid ext rng (rng.seed 0) a N).2 <;> simp
  | get i g =>
    simp only [step, specStep, specsOf]
    cases hG : s.grids[i]? with
    | none => rfl
    | some G =>
      have hf := callGetter_fields ext G g
      simp only [List.map_set, hf.1, hf.2]
      rw [set_of_getElem?]
      rw [List.getElem?_map, hG]; rfl
  | regen i =>
    simp only [step, specStep, specsOf]
    cases hG : s.grids[i]? with
    | none => rfl
    | some G =>
      simp only [List.map_set]
      rw [set_of_getElem?]
      rw [List.getElem?_map, hG]; rfl

/-- The specification fields after a history are a function of the op list alone. -/
theorem run_specs (ext : Ext Γ Pt W O) (rng : Rng R W) (r₀ : R) (ops : List Op) :
    specsOf (run ext rng r₀ ops).1 = historySpecs ext rng ops := by
  induction ops using List.reverseRecOn with
  | nil => rfl
  | append_singleton ops op ih =>
    rw [run_snoc, step_specs, ih]
    simp [historySpecs, List.foldl_append]

/-- **History independence** ("calling getters repeatedly or in any order returns the same values as the first call on a
fresh object"; "whatever was computed before in the process, whatever the state of the global random generator").
For EVERY history, EVERY initial generator state and EVERY position `t`: the `t`-th output equals the value computed on
fresh canonical objects for the specification fields the first `t` ops have created — an expression that contains
neither `r₀`, nor any generator state, cache or filtered helper list of the history.
Hypothesis `Grows`: each subdivision adds a node (the node-count key of the cache then identifies the level). -/
theorem output_history_independent (ext : Ext Γ Pt W O) (rng : Rng R W) (hg : Grows ext rng) (r₀ : R)
    (ops : List Op) (t : Nat) (ht : t < ops.length) :
    (run ext rng r₀ ops).2[t]? = some (freshOut ext rng (historySpecs ext rng (ops.take t)) ops[t]) := by
  induction ops using List.reverseRecOn with
  | nil => simp at ht
  | append_singleton ops op ih =>
    rw [run_snoc]
    simp only
    rcases Nat.lt_or_ge t ops.length with h | h
    · rw [List.getElem?_append_left (by rw [run_length]; exact h), ih h]
      simp only [List.getElem_append_left h, List.take_append_of_le_length (Nat.le_of_lt h)]
    · have hte : t = ops.length := by simp at ht; omega
      subst hte
      rw [List.getElem?_append_right (by rw [run_length]; exact Nat.le_refl _), run_length]
      simp only [Nat.sub_self, List.getElem?_cons_zero, List.take_left', List.getElem_concat_length]
      rw [step_output_fresh ext rng _ op (run_polysOk ext rng hg r₀ ops) (run_gridsOk ext rng r₀ ops), run_specs]


/-- The grid part of the claim needs no hypothesis at all: every output of a grid construction or of a getter, in any
history (polytope ops included), is the fresh value.  (`Grows` is only used for the user-visible polytope getters, whose
cache is keyed by the node count.) -/
theorem grid_output_history_independent (ext : Ext Γ Pt W O) (rng : Rng R W) (r₀ : R)
    (ops : List Op) (op : Op) (hop : (∃ a N, op = .grid a N) ∨ (∃ h g, op = .get h g) ∨ (∃ h, op = .regen h)) :
    (run ext rng r₀ (ops ++ [op])).2[ops.length]? = some (freshOut ext rng (historySpecs ext rng ops) op) := by
  rw [run_snoc]
  simp only
  rw [List.getElem?_append_right (by rw [run_length]; exact Nat.le_refl _), run_length]
  simp only [Nat.sub_self, List.getElem?_cons_zero]
  have hgr := run_gridsOk ext rng r₀ ops
  rw [← run_specs ext rng r₀ ops]
  generalize (run ext rng r₀ ops).1 = s at hgr
  rcases hop with ⟨a, N, rfl⟩ | ⟨i, g, rfl⟩ | ⟨i, rfl⟩
  · simp only [step, freshOut, specsOf, List.length_map]
    rw [createGrid_rng ext rng s.rng (rng.seed 0) a N]
    cases (createGrid ext rng (rng.seed 0) a N).2 <;> rfl
  · simp only [step, freshOut, specsOf, List.getElem?_map]
    cases hG : s.grids[i]? with
    | none => rfl
    | some G =>
      obtain ⟨G₀, h1, h2⟩ := hgr G (List.mem_of_getElem? hG)
      simp only [Option.map_some, h1]
      rw [(callGetter_sim ext G G₀ g h2).1]
      cases (callGetter ext G₀ g).2 <;> rfl
  · simp only [step, freshOut, specsOf, List.getElem?_map]
    cases hG : s.grids[i]? with
    | none => rfl
    | some G =>
      obtain ⟨G₀, h1, h2⟩ := hgr G (List.mem_of_getElem? hG)
      simp only [Option.map_some, h1, h2.2.2.2.1]

/-! ### getters are pure; the in-place filter is idempotent; the cache is valid -/

/-- "Every geometry getter is a pure function of the grid specification: calling getters repeatedly or in any order
returns the same values as the first call on a fresh object": after ANY sequence of getter calls on an object, every
getter returns what it returns as the first call on the untouched object. -/
theorem getters_pure (ext : Ext Γ Pt W O) (G₀ : Grid Γ Pt) (gs : List Getter) (g : Getter) :
    (callGetter ext (gs.foldl (fun G g' => (callGetter ext G g').1) G₀) g).2 = (callGetter ext G₀ g).2 := by
  have h : GridSim ext (gs.foldl (fun G g' => (callGetter ext G g').1) G₀) G₀ := by
    induction gs using List.reverseRecOn with
    | nil => exact GridSim.refl ext G₀
    | append_singleton gs g' ih =>
      rw [List.foldl_append]
      exact (callGetter_sim ext _ G₀ g' ih).2
  exact (callGetter_sim ext _ G₀ g h).1

/-- The helper points filtered in place on first use (`voronoi.py:315-321`): filtering again changes nothing, so the
second `get_convex_hulls()` sees the same helper points and returns the same value as the first. -/
theorem filter_idempotent (ext : Ext Γ Pt W O) (G : Grid Γ Pt) :
    (callGetter ext (callGetter ext G .hulls).1 .hulls).1.vor.add = (callGetter ext G .hulls).1.vor.add ∧
    (callGetter ext (callGetter ext G .hulls).1 .hulls).2 = (callGetter ext G .hulls).2 := by
  obtain ⟨alg, N, dim, grid, poly, ⟨k, vd, vg, add, addF, np⟩⟩ := G
  cases k <;> simp [callGetter, List.filter_filter]

/-- **Cache validity** (`polytopes.py:123-148`, cache keyed only by node count): in every reachable state, a cache
entry whose count equals the current (non-zero) node count holds exactly the sorted node list of the current nodes. -/
theorem cache_valid (ext : Ext Γ Pt W O) (rng : Rng R W) (hg : Grows ext rng) (r₀ : R) (ops : List Op)
    (P : Poly Γ Pt) (hP : P ∈ (run ext rng r₀ ops).1.polys) (c : Option (List Pt))
    (hc : P.cache = (c, P.nodes.length)) (hn : P.nodes.length ≠ 0) :
    ∃ s, c = some s ∧ sortByCi P.nodes = .ok s := by
  obtain ⟨d, _, hk⟩ := run_polysOk ext rng hg r₀ ops P hP
  obtain ⟨s, h1, h2⟩ := hk.2 (by rw [hc]) hn
  rw [hc] at h1
  exact ⟨s, h1, h2⟩

/-! ### prefix stability -/

/-- **Prefix stability, 3-D polytope algorithms** ("the N-point grid is exactly the first N rows of every larger grid of
the same algorithm", all `N`, all `M ≥ 0`): whenever both constructions succeed, in any two generator states.
Hypotheses: `shuffle` permutes (`ShufflePerm`), a subdivision creates only new keys and at least one (`Fresh`). -/
theorem prefix_stable_3d (ext : Ext Γ Pt W O) (rng : Rng R W) (hs : ShufflePerm rng) (hf : Fresh ext rng)
    (a : Alg) (ha : a = .ico ∨ a = .cube3D) (r r' : R) (N M : Nat) (G₁ G₂ : Grid Γ Pt)
    (h₁ : (createGrid ext rng r a N).2 = .ok G₁) (h₂ : (createGrid ext rng r' a (N + M)).2 = .ok G₂) :
    G₁.grid = G₂.grid.take N := by
  have hg := fresh_grows ext rng hs hf
  -- reduce to the algorithm-specific part
  have key : ∀ (r : R) (N : Nat) (G : Grid Γ Pt), (createGrid ext rng r a N).2 = .ok G →
      ∃ d, N ≤ (canonPoly ext rng (kindOf3 a) d).nodes.length ∧
        getNodesPure (canonPoly ext rng (kindOf3 a) d).nodes (some N) true = .ok G.grid := by
    intro r N G h
    unfold createGrid at h
    generalize hx : genGrid ext rng r a N = x at h
    obtain ⟨x1, x2⟩ := x
    cases x2 with
    | error e => simp at h
    | ok v =>
      obtain ⟨n, p, g⟩ := v
      simp only [Except.ok.injEq] at h
      subst h
      have hgen : (genGrid ext rng r a N).2 = .ok (n, p, g) := by rw [hx]
      simp only
      rcases ha with rfl | rfl
      · rw [genGrid_ico] at hgen; exact gen3_spec ext rng hg _ r N n p g hgen
      · rw [genGrid_cube3D] at hgen; exact gen3_spec ext rng hg _ r N n p g hgen
  obtain ⟨d₁, hN₁, hq₁⟩ := key r N G₁ h₁
  obtain ⟨d₂, hN₂, hq₂⟩ := key r' (N + M) G₂ h₂
  have hq₂' := getNodesPure_take _ N (N + M) true _ (Nat.le_add_right N M) hq₂
  rcases Nat.le_total d₁ d₂ with hle | hle
  · obtain ⟨m, rfl⟩ := Nat.exists_eq_add_of_le hle
    have := (canon_getNodes_mono ext rng hs hf (kindOf3 a) d₁ N true hN₁ m).2
    rw [this, hq₁] at hq₂'
    exact Except.ok.inj hq₂'
  · obtain ⟨m, rfl⟩ := Nat.exists_eq_add_of_le hle
    have := (canon_getNodes_mono ext rng hs hf (kindOf3 a) d₂ (N + M) true hN₂ m).2
    rw [← this] at hq₂
    have hq := getNodesPure_take _ N (N + M) true _ (Nat.le_add_right N M) hq₂
    rw [hq₁] at hq
    exact Except.ok.inj hq


/-- **Prefix stability at the polytope getter** (`get_nodes`: "if you request 15 elements now and 18 elements later, the
first 15 will be the same"): on fresh polytopes of the same kind, the first `N` rows after `d + m` subdivisions are the
first `N` rows after `d` subdivisions, for every `N` up to the node count of level `d`, projected or not.  (Together with
`output_history_independent` this holds for every polytope of every history.) -/
theorem polytope_prefix_stable (ext : Ext Γ Pt W O) (rng : Rng R W) (hs : ShufflePerm rng) (hf : Fresh ext rng)
    (k : PolyKind) (d m N : Nat) (proj : Bool) (hN : N ≤ (canonPoly ext rng k d).nodes.length) :
    (getNodes (canonPoly ext rng k (d + m)) (some N) proj).2 = (getNodes (canonPoly ext rng k d) (some N) proj).2 := by
  rw [getNodes_res _ _ _ (canonPoly_cacheOk ext rng k (d + m)), getNodes_res _ _ _ (canonPoly_cacheOk ext rng k d)]
  exact (canon_getNodes_mono ext rng hs hf k d N proj hN m).2

/-- What the construction of a `cube4D` or `fulldiv` grid returns: the first `N` rows of the half selection of some
canonical subdivision level that has at least `N` of them, followed by their negatives. -/
theorem half_family_spec (ext : Ext Γ Pt W O) (rng : Rng R W) (hs : ShufflePerm rng) (hf : Fresh ext rng)
    (a : Alg) (ha : a = .cube4D ∨ a = .fulldiv) (r : R) (N : Nat) (G : Grid Γ Pt)
    (h : (createGrid ext rng r a N).2 = .ok G) :
    ∃ d rows, N ≤ halfCount ext (canonPoly ext rng .cube4D d).nodes ∧
      halfPure ext .cube4D (canonPoly ext rng .cube4D d).nodes (some N) true = .ok rows ∧
      rows.length = N ∧ G.grid = rows ++ rows.map ext.neg := by
  unfold createGrid at h
  generalize hx : genGrid ext rng r a N = x at h
  obtain ⟨x1, x2⟩ := x
  cases x2 with
  | error e => simp at h
  | ok v =>
    obtain ⟨n, p, g⟩ := v
    simp only [Except.ok.injEq] at h
    subst h
    have hgen : (genGrid ext rng r a N).2 = .ok (n, p, g) := by rw [hx]
    rcases ha with rfl | rfl
    · rw [genGrid_cube4D] at hgen
      exact gen4_spec ext rng hs hf r N n p g hgen
    · rw [genGrid_fulldiv] at hgen
      exact genF_spec ext rng hs hf r N n p g hgen

/-- **Prefix stability, cube4D and fulldiv** (rotation grids; the array is the double cover `G ++ -G`, the claim is about
its first `N` rows, the upper half): the `N` quaternions of the `N`-point grid are exactly the first `N` of the
`N+M`-point grid, for any two algorithms of the hypercube family, whenever both constructions succeed, in any two
generator states.  With `M = 0`: `fulldiv_N` and `cube4D_N` are the same grid.  Additional hypothesis `ProjNodup`:
distinct nodes have distinct projections (C07's claim; `which_row_is_k` finds a row by its coordinates). -/
theorem prefix_stable_hypercube (ext : Ext Γ Pt W O) (rng : Rng R W) (hs : ShufflePerm rng) (hf : Fresh ext rng)
    (hp : ProjNodup ext rng) (a₁ a₂ : Alg) (ha₁ : a₁ = .cube4D ∨ a₁ = .fulldiv) (ha₂ : a₂ = .cube4D ∨ a₂ = .fulldiv)
    (r r' : R) (N M : Nat) (G₁ G₂ : Grid Γ Pt)
    (h₁ : (createGrid ext rng r a₁ N).2 = .ok G₁) (h₂ : (createGrid ext rng r' a₂ (N + M)).2 = .ok G₂) :
    ∃ rows₁ rows₂, G₁.grid = rows₁ ++ rows₁.map ext.neg ∧ G₂.grid = rows₂ ++ rows₂.map ext.neg ∧
      rows₁.length = N ∧ rows₂.length = N + M ∧ rows₁ = rows₂.take N := by
  obtain ⟨d₁, rows₁, hN₁, hq₁, hl₁, hg₁⟩ := half_family_spec ext rng hs hf a₁ ha₁ r N G₁ h₁
  obtain ⟨d₂, rows₂, hN₂, hq₂, hl₂, hg₂⟩ := half_family_spec ext rng hs hf a₂ ha₂ r' (N + M) G₂ h₂
  refine ⟨rows₁, rows₂, hg₁, hg₂, hl₁, hl₂, ?_⟩
  have hq₂' := halfPure_take ext _ N (N + M) true _ (Nat.le_add_right N M) hq₂
  rcases Nat.le_total d₁ d₂ with hle | hle
  · obtain ⟨m, rfl⟩ := Nat.exists_eq_add_of_le hle
    have := (canon_half_mono ext rng hs hf hp d₁ N true hN₁ m).2
    rw [this, hq₁] at hq₂'
    exact Except.ok.inj hq₂'
  · obtain ⟨m, rfl⟩ := Nat.exists_eq_add_of_le hle
    have := (canon_half_mono ext rng hs hf hp d₂ (N + M) true hN₂ m).2
    rw [← this] at hq₂
    have hq := halfPure_take ext _ N (N + M) true _ (Nat.le_add_right N M) hq₂
    rw [hq₁] at hq
    exact Except.ok.inj hq

/-- The special case named in DESIGN §5.8. -/
theorem prefix_stable_cube4D (ext : Ext Γ Pt W O) (rng : Rng R W) (hs : ShufflePerm rng) (hf : Fresh ext rng)
    (hp : ProjNodup ext rng) (r r' : R) (N M : Nat) (G₁ G₂ : Grid Γ Pt)
    (h₁ : (createGrid ext rng r .cube4D N).2 = .ok G₁) (h₂ : (createGrid ext rng r' .cube4D (N + M)).2 = .ok G₂) :
    ∃ rows₁ rows₂, G₁.grid = rows₁ ++ rows₁.map ext.neg ∧ G₂.grid = rows₂ ++ rows₂.map ext.neg ∧
      rows₁.length = N ∧ rows₂.length = N + M ∧ rows₁ = rows₂.take N :=
  prefix_stable_hypercube ext rng hs hf hp .cube4D .cube4D (Or.inl rfl) (Or.inl rfl) r r' N M G₁ G₂ h₁ h₂

/-
OPEN — not proved here (they are statements about the geometry `Ext`, not about the state machine):
  * that `fulldiv_N` SUCCEEDS for N ∈ {8, 40, 272, 2080} (the half selection after 0,1,2,3 subdivisions has exactly N rows;
    C18 proves the counts); `prefix_stable_hypercube` covers every case in which it does;
  * the hypotheses `Fresh` (a subdivision creates only new coordinate tuples, C18) and `ProjNodup` (C07) for the REAL
    geometry; they are validated per run by the correspondence check (node tables, per-level counts, row look-up).
-/

/-! ### non-vacuity and necessity of the hypotheses -/

/-- Non-vacuity: a concrete geometry (`toyExt`: three start points, two new points per subdivision, one of them handed
over twice) and generator (`toyRng`: `shuffle` reverses) satisfy `ShufflePerm`, `Fresh` and `Grows`. -/
example : ShufflePerm toyRng ∧ Fresh toyExt toyRng ∧ Grows toyExt toyRng ∧ ProjNodup toyExt toyRng :=
  ⟨toy_shufflePerm, toy_fresh, fresh_grows toyExt toyRng toy_shufflePerm toy_fresh, toy_projNodup⟩

/-- Non-vacuity of `prefix_stable_cube4D`: both constructions succeed in the instance (0 and 1 subdivisions). -/
example : ∃ G₁ G₂, (createGrid toyExt toyRng 9 .cube4D 2).2 = .ok G₁ ∧ (createGrid toyExt toyRng 1 .cube4D 3).2 = .ok G₂ ∧
    G₁.grid = [1002, 1000, 6002, 6000] ∧ G₂.grid = [1002, 1000, 1004, 6002, 6000, 6004] :=
  ⟨_, _, rfl, rfl, rfl, rfl⟩

/-- Non-vacuity of `prefix_stable_3d`: in that instance both constructions succeed (one and two subdivisions), from
different generator states, with non-trivial arrays. -/
example : ∃ G₁ G₂, (createGrid toyExt toyRng 7 .ico 4).2 = .ok G₁ ∧ (createGrid toyExt toyRng 9 .ico 6).2 = .ok G₂ ∧
    G₁.grid = [1002, 1001, 1000, 1004] ∧ G₂.grid = [1002, 1001, 1000, 1004, 1003, 1006] :=
  ⟨_, _, rfl, rfl, rfl, rfl⟩

/-- Non-vacuity of `output_history_independent` / `cache_valid`: a history of the instance that reads a polytope,
subdivides it, reads it again (cache count 3, then 5) and builds and reads grids in between. -/
example : (run toyExt toyRng 5 [.newPoly .ico, .nodes 0 none false, .reseed 3, .grid .cube4D 3, .divide 0,
      .get 0 .hulls, .nodes 0 (some 4) true, .regen 0, .get 0 .upper]).2 =
    [.handle 0, .pts [2, 1, 0], .unit, .handle 0, .unit, .err .attributeError, .pts [1002, 1001, 1000, 1004],
     .out [1002, 1000, 1004, 6002, 6000, 6004], .out [1002, 1000, 1004, 6002, 6000, 6004]] := by decide +kernel

/-- Why `Grows` is a hypothesis (a concrete witness, not a theorem about all inputs): if a "subdivision" only re-labels an
existing point (`staleExt`: same node count, new level, new index), the cache keyed by the node count returns the stale
order `[2,1,0]` where a fresh object returns `[1,0,2]`.  The real subdivisions always add nodes; the correspondence
check validates the per-level node counts on every run. -/
theorem stale_cache_without_growth :
    (run staleExt toyRng 5 [.newPoly .ico, .nodes 0 none false, .divide 0, .nodes 0 none false]).2[3]?
      ≠ some (freshOut staleExt toyRng
          (historySpecs staleExt toyRng [.newPoly .ico, .nodes 0 none false, .divide 0]) (.nodes 0 none false)) := by
  decide +kernel

end Molgri.C08
