/-
C09 — full-grid row order is position-major, rotation-minor and is recoverable.

Property theorems about `Molgri.Order` (the model of `_t_and_o_2_positions`, `FullGrid.get_full_grid_as_array`,
`get_quaternion_index`, `get_position_index`, `from_full_array_to_o_b_t`).  Quantifiers: every direction grid
`dirs` (n_o rows), every rotation grid `quats` (n_b rows), every radial grid (n_t radii), every row index and every
integer index array handed to the helpers.  Scalars: any type with `*` for the enumeration theorems (so they hold
verbatim for the `Rat` instance the driver runs and for IEEE floats as an abstract `*`), any linearly ordered field
for the decomposition.
-/
import Molgri.Lemmas.Order

namespace Molgri.C09
open Molgri.Order

/-! ## the position grid: shell-major -/

/-- "position cells enumerate all directions at the first radius, then all at the second, and so on":
the position grid has `n_t·n_o` cells (so the `assert len(result) == n_o*n_t` never fires). -/
theorem positions_len {K} [Mul K] (dirs : List (List K)) (radii : List K) :
    (positions dirs radii).length = radii.length * dirs.length :=
  length_positions dirs radii

/-- … and cell `p` is direction `p mod n_o` scaled by radius `p div n_o`. -/
theorem pos_spec {K} [Mul K] (dirs : List (List K)) (radii : List K) (p : Nat)
    (hp : p < radii.length * dirs.length) :
    (positions dirs radii)[p]? =
      some ((dirs[p % dirs.length]'(Nat.mod_lt _ (Nat.pos_of_ne_zero (by rintro h; simp [h] at hp)))).map
        (· * radii[p / dirs.length]'(Nat.div_lt_of_lt_mul (by rwa [Nat.mul_comm] at hp)))) := by
  have hd : 0 < dirs.length := Nat.pos_of_ne_zero (by rintro h; simp [h] at hp)
  rw [getElem?_positions dirs radii p hd]
  rw [List.getElem?_eq_getElem (Nat.div_lt_of_lt_mul (by rwa [Nat.mul_comm] at hp)),
    List.getElem?_eq_getElem (Nat.mod_lt _ hd)]
  rfl

/-- the tile/repeat/multiply code is the nested enumeration "for every radius, for every direction". -/
theorem positions_shell_major {K} [Mul K] (dirs : List (List K)) (radii : List K) :
    positions dirs radii = radii.flatMap (fun r => dirs.map (fun d => d.map (· * r))) :=
  positions_eq_flatMap dirs radii

/-- the scalar branch of the same helper (per-cell properties) uses the same shell-major order: entry `p` is
`o[p mod n_o] · t[p div n_o]`. -/
theorem pos_scalar_spec {K} [Mul K] (o t : List K) (p : Nat) (a r : K)
    (ha : o[p % o.length]? = some a) (hr : t[p / o.length]? = some r) :
    (positionsScalar o t)[p]? = some (a * r) := by
  have ho : 0 < o.length := by
    rcases Nat.eq_zero_or_pos o.length with h | h
    · rw [List.length_eq_zero_iff.mp h] at ha; simp at ha
    · exact h
  rw [getElem?_positionsScalar o t p ho, hr, ha]; rfl

/-! ## radii: ascending, in Ångström -/

/-- "radii in Angstrom (ten times the nanometre input)", in ascending order; a negative input is rejected. -/
theorem radii_spec {K} [LinearOrder K] [OfNat K 0] [OfNat K 10] [Mul K] (nm : List K) :
    (sortK nm).Pairwise (· ≤ ·) ∧ (sortK nm).Perm nm ∧
    transGrid nm = if ∀ x ∈ nm, (0 : K) ≤ x then .ok ((sortK nm).map (· * 10)) else .error "AssertionError" := by
  refine ⟨sortK_sorted nm, sortK_perm nm, ?_⟩
  unfold transGrid
  have : ((sortK nm).all (fun x => decide ((0 : K) ≤ x)) = true) ↔ ∀ x ∈ nm, (0 : K) ≤ x := by
    simp only [List.all_eq_true, decide_eq_true_eq]
    constructor
    · intro h x hx; exact h x ((sortK_perm nm).mem_iff.mpr hx)
    · intro h x hx; exact h x ((sortK_perm nm).mem_iff.mp hx)
  simp only [this]

/-! ## the full array: position-major, rotation-minor -/

/-- "The full grid array has n_t*n_o*n_b rows" (for the pure enumeration). -/
theorem full_len {K} (pos quats : List (List K)) :
    (fullArray pos quats).length = pos.length * quats.length :=
  length_fullArray pos quats

/-- "row n holds the Cartesian position of position-cell n div n_b and the quaternion of rotation n mod n_b". -/
theorem row_spec {K} (pos quats : List (List K)) (n : Nat) (hn : n < pos.length * quats.length) :
    (fullArray pos quats)[n]? =
      some (pos[n / quats.length]'(Nat.div_lt_of_lt_mul (by rwa [Nat.mul_comm] at hn)) ++
            quats[n % quats.length]'(Nat.mod_lt _ (Nat.pos_of_ne_zero (by rintro h; simp [h] at hn)))) := by
  have hq : 0 < quats.length := Nat.pos_of_ne_zero (by rintro h; simp [h] at hn)
  rw [getElem?_fullArray pos quats n hq,
    List.getElem?_eq_getElem (Nat.div_lt_of_lt_mul (by rwa [Nat.mul_comm] at hn)),
    List.getElem?_eq_getElem (Nat.mod_lt _ hq)]
  rfl

/-- The same read from the other side (the form every consumer uses, `n_b·p + k`): position cell `p` with rotation `k`
sits in row `n_b·p + k`, so every (cell, rotation) pair occurs in exactly one row. -/
theorem row_of_pair {K} (pos quats : List (List K)) (p k : Nat) (hp : p < pos.length) (hk : k < quats.length) :
    (fullArray pos quats)[quats.length * p + k]? = some (pos[p] ++ quats[k]) ∧
    quats.length * p + k < pos.length * quats.length := by
  have hlt : quats.length * p + k < pos.length * quats.length := by
    calc quats.length * p + k < quats.length * p + quats.length := by omega
      _ = (p + 1) * quats.length := by rw [Nat.add_mul, Nat.one_mul, Nat.mul_comm]
      _ ≤ pos.length * quats.length := Nat.mul_le_mul_right _ hp
  refine ⟨?_, hlt⟩
  rw [row_spec pos quats _ hlt]
  have h1 : (quats.length * p + k) / quats.length = p := by
    rw [Nat.mul_add_div (by omega), Nat.div_eq_of_lt hk, Nat.add_zero]
  have h2 : (quats.length * p + k) % quats.length = k := by
    rw [Nat.mul_add_mod, Nat.mod_eq_of_lt hk]
  simp only [h1, h2]

/-- "rows of seven numbers": three position coordinates followed by four quaternion components. -/
theorem row_width {K} (pos quats : List (List K)) (hp : ∀ p ∈ pos, p.length = 3) (hq : ∀ q ∈ quats, q.length = 4) :
    ∀ r ∈ fullArray pos quats, r.length = 7 := by
  intro r hr
  unfold fullArray at hr
  simp only [List.mem_flatMap, List.mem_map] at hr
  obtain ⟨p, hp', q, hq', rfl⟩ := hr
  rw [List.length_append, hp p hp', hq q hq']

/-- The loop as written (`result = np.full((len(self), 7), nan)`, running index, two nested loops) for an arbitrary
pre-allocated length: it raises `IndexError` exactly when the buffer is too short, otherwise it writes the
enumeration and leaves the surplus rows NaN. -/
theorem loop_spec {K} (len : Nat) (pos quats : List (List K)) :
    fullArrayLoop len pos quats =
      if pos.length * quats.length ≤ len then
        .ok ((fullArray pos quats).map some ++ List.replicate (len - pos.length * quats.length) none)
      else .error "IndexError" := by
  unfold fullArrayLoop
  rw [loop_flatten]
  have h := writeAll_spec (fullArray pos quats) [] len
  simp only [List.map_nil, List.nil_append, List.length_nil, Nat.zero_add] at h
  rw [h, length_fullArray]
  split <;> rfl

/-- With `len(self) = n_b·(n_o·n_t)` the loop fills every row: the array is exactly the enumeration, no row is left
NaN, no `IndexError`; it has `n_t·n_o·n_b` rows; a negative radius is an `AssertionError`. -/
theorem fullGrid_spec {K} [LinearOrder K] [OfNat K 0] [OfNat K 10] [Mul K] (dirs quats : List (List K)) (nm : List K) :
    fullGrid dirs quats nm =
      if ∀ x ∈ nm, (0 : K) ≤ x then
        .ok ((fullArray (positions dirs ((sortK nm).map (· * 10))) quats).map some)
      else .error "AssertionError" := by
  unfold fullGrid
  have ht := (radii_spec nm).2.2
  by_cases h : ∀ x ∈ nm, (0 : K) ≤ x
  · rw [if_pos h] at ht ⊢
    rw [ht]
    show fullArrayLoop _ _ _ = _
    have hl : (positions dirs ((sortK nm).map (· * 10))).length * quats.length
        = fullLen quats.length dirs.length ((sortK nm).map (· * 10)).length := by
      rw [length_positions, fullLen, Nat.mul_comm quats.length, Nat.mul_comm dirs.length]
    rw [loop_spec, hl, if_pos (Nat.le_refl _), Nat.sub_self]
    simp
  · rw [if_neg h] at ht ⊢
    rw [ht]

/-- Rows of the full grid, all three orders at once: row `n` is direction `(n div n_b) mod n_o`, scaled by ten times
the `(n div n_b) div n_o`-th smallest nanometre radius, followed by rotation `n mod n_b`. -/
theorem full_row {K} [LinearOrder K] [OfNat K 0] [OfNat K 10] [Mul K] (dirs quats : List (List K)) (nm : List K)
    (n : Nat) (d q : List K) (r : K)
    (hn : n < nm.length * dirs.length * quats.length)
    (hd : dirs[(n / quats.length) % dirs.length]? = some d)
    (hr : (sortK nm)[(n / quats.length) / dirs.length]? = some r)
    (hq : quats[n % quats.length]? = some q) :
    (fullArray (positions dirs ((sortK nm).map (· * 10))) quats)[n]? = some (d.map (· * (r * 10)) ++ q) := by
  have hq0 : 0 < quats.length := Nat.pos_of_ne_zero (by rintro h; simp [h] at hn)
  have hd0 : 0 < dirs.length := Nat.pos_of_ne_zero (by rintro h; simp [h] at hn)
  rw [getElem?_fullArray _ _ _ hq0, getElem?_positions _ _ _ hd0, List.getElem?_map, hr, hd, hq]
  rfl

/-- … and those three lookups succeed for every row index below `n_t·n_o·n_b`. -/
theorem full_row_total {K} [LinearOrder K] (dirs quats : List (List K)) (nm : List K) (n : Nat)
    (hn : n < nm.length * dirs.length * quats.length) :
    (n / quats.length) % dirs.length < dirs.length ∧ (n / quats.length) / dirs.length < (sortK nm).length ∧
      n % quats.length < quats.length := by
  have hq0 : 0 < quats.length := Nat.pos_of_ne_zero (by rintro h; simp [h] at hn)
  have hd0 : 0 < dirs.length := Nat.pos_of_ne_zero (by rintro h; simp [h] at hn)
  refine ⟨Nat.mod_lt _ hd0, ?_, Nat.mod_lt _ hq0⟩
  rw [(sortK_perm nm).length_eq]
  apply Nat.div_lt_of_lt_mul
  rw [Nat.mul_comm]
  apply Nat.div_lt_of_lt_mul
  rw [Nat.mul_comm]; exact hn

/-! ## the index helpers -/

/-- "The index helpers return exactly n div n_b and n mod n_b … for every subset of indices": for an index array
whose entries are acceptable to numpy (`-N ≤ i < N`, negative = from the end), `get_quaternion_index` returns
`i mod n_b` entry by entry, in the order of the index array. -/
theorem quatIndex_spec (nb no nt : Nat) (idx : List Int) (h : ∀ i ∈ idx, InRange (fullLen nb no nt) i) :
    quaternionIndex nb no nt (some idx) = .ok (idx.map (fun i => wrapIdx (fullLen nb no nt) i % nb)) := by
  unfold quaternionIndex
  simp only [Option.getD_some]
  have hlen : (tile (List.range nb) (nt * no)).length = fullLen nb no nt := by
    rw [length_tile, List.length_range, fullLen, Nat.mul_comm nt no, Nat.mul_comm]
  apply npTake_ok
  intro i hi
  have hi' := h i hi
  apply npGet_ok _ _ _ (by rw [hlen]; exact hi')
  rw [hlen]
  have hlt := wrapIdx_lt hi'
  have hnb : 0 < nb := Nat.pos_of_ne_zero (by rintro rfl; simp [fullLen] at hlt)
  generalize wrapIdx (fullLen nb no nt) i = w at hlt ⊢
  rw [getElem?_tile _ _ _ (by rw [List.length_range]; rw [fullLen] at hlt; rw [Nat.mul_comm nt no, Nat.mul_comm]; exact hlt)]
  rw [List.length_range, List.getElem?_range (Nat.mod_lt _ hnb)]

/-- `get_position_index` returns `i div n_b` entry by entry. -/
theorem posIndex_spec (nb no nt : Nat) (idx : List Int) (h : ∀ i ∈ idx, InRange (fullLen nb no nt) i) :
    positionIndex nb no nt (some idx) = .ok (idx.map (fun i => wrapIdx (fullLen nb no nt) i / nb)) := by
  unfold positionIndex
  simp only [Option.getD_some]
  have hlen : (repeatEach (List.range (nt * no)) nb).length = fullLen nb no nt := by
    rw [length_repeatEach, List.length_range, fullLen, Nat.mul_comm nt no, Nat.mul_comm]
  apply npTake_ok
  intro i hi
  have hi' := h i hi
  apply npGet_ok _ _ _ (by rw [hlen]; exact hi')
  rw [hlen]
  have hlt := wrapIdx_lt hi'
  have hnb : 0 < nb := Nat.pos_of_ne_zero (by rintro rfl; simp [fullLen] at hlt)
  generalize wrapIdx (fullLen nb no nt) i = w at hlt ⊢
  rw [getElem?_repeatEach _ _ _ hnb, List.getElem?_range]
  apply Nat.div_lt_of_lt_mul
  rw [fullLen, Nat.mul_comm no nt] at hlt
  exact hlt

/-- An index outside `[-N, N)` anywhere in the array makes both helpers raise `IndexError`. -/
theorem index_error (nb no nt : Nat) (idx : List Int) (h : ∃ i ∈ idx, ¬ InRange (fullLen nb no nt) i) :
    quaternionIndex nb no nt (some idx) = .error "IndexError" ∧
    positionIndex nb no nt (some idx) = .error "IndexError" := by
  have hlen1 : (tile (List.range nb) (nt * no)).length = fullLen nb no nt := by
    rw [length_tile, List.length_range, fullLen, Nat.mul_comm nt no, Nat.mul_comm]
  have hlen2 : (repeatEach (List.range (nt * no)) nb).length = fullLen nb no nt := by
    rw [length_repeatEach, List.length_range, fullLen, Nat.mul_comm nt no, Nat.mul_comm]
  constructor
  · unfold quaternionIndex
    exact npTake_err _ _ (by rw [hlen1]; exact h)
  · unfold positionIndex
    exact npTake_err _ _ (by rw [hlen2]; exact h)

/-- With the argument left at `None` the helpers list `n mod n_b` and `n div n_b` for every row `n = 0 … N-1`. -/
theorem index_all (nb no nt : Nat) :
    quaternionIndex nb no nt none = .ok ((List.range (fullLen nb no nt)).map (· % nb)) ∧
    positionIndex nb no nt none = .ok ((List.range (fullLen nb no nt)).map (· / nb)) := by
  have hr : ∀ i ∈ (List.range (fullLen nb no nt)).map Int.ofNat, InRange (fullLen nb no nt) i := by
    intro i hi
    simp only [List.mem_map, List.mem_range] at hi
    obtain ⟨k, hk, rfl⟩ := hi
    unfold InRange
    constructor
    · have : (0 : Int) ≤ Int.ofNat k := Int.natCast_nonneg k
      omega
    · exact Int.ofNat_lt.mpr hk
  have h1 := quatIndex_spec nb no nt _ hr
  have h2 := posIndex_spec nb no nt _ hr
  unfold quaternionIndex at h1 ⊢
  unfold positionIndex at h2 ⊢
  simp only [Option.getD_some, Option.getD_none, List.map_map] at h1 h2 ⊢
  rw [h1, h2]
  have hw : ∀ k : Nat, wrapIdx (fullLen nb no nt) (Int.ofNat k) = k := wrapIdx_ofNat _
  simp only [Function.comp_def, hw, and_self]

/-- The helpers agree with the array: row `n` of the full array is position cell `positionIndex n` followed by
rotation `quaternionIndex n` (stated through `row_spec`: the same `n div n_b`, `n mod n_b`). -/
theorem helpers_match_array {K} (pos quats : List (List K)) (no nt : Nat) (hpos : pos.length = no * nt)
    (n : Nat) (hn : n < pos.length * quats.length) :
    ∃ pi qi p q, positionIndex quats.length no nt (some [Int.ofNat n]) = .ok [pi] ∧
      quaternionIndex quats.length no nt (some [Int.ofNat n]) = .ok [qi] ∧
      pos[pi]? = some p ∧ quats[qi]? = some q ∧ (fullArray pos quats)[n]? = some (p ++ q) := by
  have hN : n < fullLen quats.length no nt := by
    rw [fullLen, ← hpos, Nat.mul_comm]; exact hn
  have hr : ∀ i ∈ [Int.ofNat n], InRange (fullLen quats.length no nt) i := by
    intro i hi
    rw [List.mem_singleton] at hi
    subst hi
    unfold InRange
    constructor
    · have : (0 : Int) ≤ Int.ofNat n := Int.natCast_nonneg n
      omega
    · exact Int.ofNat_lt.mpr hN
  have hq : 0 < quats.length := Nat.pos_of_ne_zero (by rintro h; simp [h] at hn)
  refine ⟨n / quats.length, n % quats.length, pos[n / quats.length]'(Nat.div_lt_of_lt_mul (by rwa [Nat.mul_comm] at hn)),
    quats[n % quats.length]'(Nat.mod_lt _ hq), ?_, ?_, ?_, ?_, row_spec pos quats n hn⟩
  · rw [posIndex_spec _ _ _ _ hr]; simp [wrapIdx_natCast]
  · rw [quatIndex_spec _ _ _ _ hr]; simp [wrapIdx_natCast]
  · exact List.getElem?_eq_getElem _
  · exact List.getElem?_eq_getElem _

/-! ## the decomposition -/

/-- "order-preserving de-duplication": whatever order `np.unique` lists the distinct rows in, sorting its
`return_index` output gives the ascending first-occurrence indices (all inputs, any row order `le`). -/
theorem unique_then_sort_is_first_occurrence {κ} [DecidableEq κ] (le : κ → κ → Bool) (keys : List κ) :
    sortNat (npUniqueIdx le keys) = firstOcc keys ∧
    (∀ i, i ∈ firstOcc keys ↔ ∃ h : i < keys.length, keys[i] ∉ keys.take i) ∧
    (firstOcc keys).Pairwise (· < ·) := by
  refine ⟨sortNat_npUniqueIdx le keys, ?_, pairwise_lt_firstOcc keys⟩
  intro i
  unfold firstOcc isFirst
  simp only [List.mem_filter, List.mem_range]
  constructor
  · rintro ⟨hi, h⟩
    refine ⟨hi, ?_⟩
    rw [List.getElem?_eq_getElem hi] at h
    simpa using h
  · rintro ⟨hi, h⟩
    refine ⟨hi, ?_⟩
    rw [List.getElem?_eq_getElem hi]
    simpa using h

/-- The de-duplication for **all** inputs: the result is a sublist of the input (original order, original —
un-rounded — rows), its keys are pairwise distinct, and every input row's key is represented. -/
theorem dedup_spec {α κ} [DecidableEq κ] (le : κ → κ → Bool) (key : α → κ) (l : List α) :
    (dedupKeepFirst le key l).Sublist l ∧ ((dedupKeepFirst le key l).map key).Nodup ∧
    ∀ x ∈ l, key x ∈ (dedupKeepFirst le key l).map key := by
  rw [dedupKeepFirst_eq_rec]
  obtain ⟨h1, _, h3⟩ := dedupRec_keys key l []
  refine ⟨dedupRec_sublist key l [], h1, ?_⟩
  intro x hx
  rcases h3 x hx with h | h
  · simp at h
  · exact h

/-- `dedupKeepFirst (tile l k) = l` and `dedupKeepFirst (repeatEach l k) = l` (DESIGN §5.9) for rows with pairwise
distinct keys. -/
theorem dedup_tile_repeat {α κ} [DecidableEq κ] (le : κ → κ → Bool) (key : α → κ) (l : List α) (k : Nat) (hk : 0 < k)
    (hnd : (l.map key).Nodup) :
    dedupKeepFirst le key (tile l k) = l ∧ dedupKeepFirst le key (repeatEach l k) = l := by
  refine ⟨dedup_tile le key l k hk hnd, ?_⟩
  rw [dedup_repeatEach le key l k hk]
  have := dedup_tile le key l 1 (by omega) hnd
  simpa [tile] using this

/-- "decomposing the array back into direction, rotation and radial grids returns the three generating grids in
their original order".

Hypotheses (exactly what the statement presupposes): directions are unit 3-vectors, radii are positive, `norm` is a
non-negative square root of the sum of squares on the rows it is applied to (`np.linalg.norm`), the rows of each
generating grid stay pairwise distinct after rounding (`rnd` = `np.round(·, 8)`), and the radii are strictly
increasing after rounding (`TranslationParser` sorts them).  The radial grid comes back rounded, as in the code
(`np.unique(np.round(lens, 8))`). -/
theorem decompose_inverts {K} [Field K] [LinearOrder K] [IsStrictOrderedRing K]
    (norm : List K → K) (rnd : K → K) (dirs quats : List (List K)) (radii : List K)
    (hd3 : ∀ d ∈ dirs, d.length = 3)
    (hunit : ∀ d ∈ dirs, sumsq d = 1)
    (hrpos : ∀ r ∈ radii, 0 < r)
    (hnorm : ∀ p ∈ positions dirs radii, 0 ≤ norm p ∧ norm p * norm p = sumsq p)
    (hdk : (dirs.map (·.map rnd)).Nodup)
    (hqk : (quats.map (·.map rnd)).Nodup)
    (hrk : (radii.map rnd).Pairwise (· < ·))
    (hd : dirs ≠ []) (hq : quats ≠ []) (hr : radii ≠ []) :
    decompose norm rnd (fullArray (positions dirs radii) quats) = (dirs, quats, radii.map rnd) := by
  have hno : 0 < dirs.length := List.length_pos_iff.mpr hd
  have hnb : 0 < quats.length := List.length_pos_iff.mpr hq
  have hnt : 0 < radii.length := List.length_pos_iff.mpr hr
  have hp3 := length_of_mem_positions dirs radii 3 hd3
  -- norm of every position row, and its normalisation
  have hn : ∀ d ∈ dirs, ∀ r ∈ radii, norm (d.map (· * r)) = r := by
    intro d hd' r hr'
    apply norm_scaled_unit norm d r (hrpos r hr') (hunit d hd')
    apply hnorm
    rw [positions_eq_flatMap]
    simp only [List.mem_flatMap, List.mem_map]
    exact ⟨r, hr', d, hd', rfl⟩
  have hlens : (positions dirs radii).map norm = repeatEach radii dirs.length := by
    rw [positions_eq_flatMap, List.map_flatMap]
    unfold repeatEach
    apply List.flatMap_congr
    intro r hr'
    rw [List.map_map]
    have : dirs.map (norm ∘ fun d => d.map (· * r)) = dirs.map (fun _ => r) :=
      List.map_congr_left (fun d hd' => hn d hd' r hr')
    rw [this]
    simp
  have hori : (positions dirs radii).map (fun p => normaliseRow (norm p) p) = tile dirs radii.length := by
    rw [positions_eq_flatMap, List.map_flatMap, ← flatMap_const_eq_tile]
    apply List.flatMap_congr
    intro r hr'
    rw [List.map_map]
    conv => rhs; rw [← List.map_id dirs]
    apply List.map_congr_left
    intro d hd'
    show normaliseRow (norm (d.map (· * r))) (d.map (· * r)) = id d
    rw [hn d hd' r hr', normalise_scaled d r (ne_of_gt (hrpos r hr'))]; rfl
  unfold decompose
  simp only
  -- quaternions
  have hQ : (fullArray (positions dirs radii) quats).map (·.drop 3) = tile quats (positions dirs radii).length :=
    map_drop_fullArray _ _ 3 hp3
  have hT : (fullArray (positions dirs radii) quats).map (·.take 3) = repeatEach (positions dirs radii) quats.length :=
    map_take_fullArray _ _ 3 hp3
  have hL : (fullArray (positions dirs radii) quats).map (fun r => norm (r.take 3))
      = repeatEach (repeatEach radii dirs.length) quats.length := by
    rw [← hlens, ← map_repeatEach, ← hT, List.map_map]; rfl
  have hO : (fullArray (positions dirs radii) quats).map (fun r => normaliseRow (norm (r.take 3)) (r.take 3))
      = repeatEach (tile dirs radii.length) quats.length := by
    rw [← hori, ← map_repeatEach, ← hT, List.map_map]; rfl
  rw [hQ, hL, hO, map_repeatEach, map_repeatEach, repeatEach_repeatEach]
  rw [dedup_tile _ _ quats _ (by rw [length_positions]; exact Nat.mul_pos hnt hno) hqk]
  rw [dedup_repeatEach _ _ _ _ hnb, dedup_tile _ _ dirs _ hnt hdk]
  rw [npUnique1_repeatEach _ _ (Nat.mul_pos hno hnb) hrk]

/-- The same from the user's input: grids `dirs`, `quats`, radial grid `nm` in nanometres.  The decomposition of the
array returns `dirs`, `quats` and the rounded radii `10·nm` in ascending order. -/
theorem decompose_fullGrid {K} [Field K] [LinearOrder K] [IsStrictOrderedRing K]
    (norm : List K → K) (rnd : K → K) (dirs quats : List (List K)) (nm : List K)
    (hd3 : ∀ d ∈ dirs, d.length = 3)
    (hunit : ∀ d ∈ dirs, sumsq d = 1)
    (hrpos : ∀ r ∈ nm, 0 < r)
    (hnorm : ∀ p ∈ positions dirs ((sortK nm).map (· * 10)), 0 ≤ norm p ∧ norm p * norm p = sumsq p)
    (hdk : (dirs.map (·.map rnd)).Nodup)
    (hqk : (quats.map (·.map rnd)).Nodup)
    (hrk : (((sortK nm).map (· * 10)).map rnd).Pairwise (· < ·))
    (hd : dirs ≠ []) (hq : quats ≠ []) (hr : nm ≠ []) :
    ∃ arr, fullGrid dirs quats nm = .ok (arr.map some) ∧
      decompose norm rnd arr = (dirs, quats, ((sortK nm).map (· * 10)).map rnd) := by
  refine ⟨fullArray (positions dirs ((sortK nm).map (· * 10))) quats, ?_, ?_⟩
  · rw [fullGrid_spec, if_pos (fun x hx => le_of_lt (hrpos x hx))]
  · apply decompose_inverts norm rnd dirs quats _ hd3 hunit _ hnorm hdk hqk hrk hd hq
    · intro h
      have h1 : ((sortK nm).map (· * 10)).length = 0 := by rw [h]; rfl
      rw [List.length_map, (sortK_perm nm).length_eq] at h1
      exact hr (List.length_eq_zero_iff.mp h1)
    · intro r hr'
      simp only [List.mem_map] at hr'
      obtain ⟨x, hx, rfl⟩ := hr'
      have := hrpos x ((sortK_perm nm).mem_iff.mp hx)
      positivity

/-! ## the rounding parameter and the hypotheses of `decompose_inverts` -/

/-- `round8` (the driver's `np.round(·, 8)`) moves a number by at most `0.5·10⁻⁸`, so two numbers more than `10⁻⁸`
apart keep their order after rounding: radii that are ascending with gaps above `10⁻⁸` Å satisfy hypothesis `hrk`. -/
theorem round8_spec (x : Rat) : |round8 x - x| ≤ 1/200000000 := round8_err x

theorem radii_stay_ascending (radii : List Rat) (h : radii.Pairwise (fun a b => a + 1/100000000 < b)) :
    (radii.map round8).Pairwise (· < ·) := by
  rw [List.pairwise_map]
  exact h.imp (fun h => round8_separates _ _ h)

/-! ## non-vacuity: a concrete grid satisfying every hypothesis, at the `Rat` instance the driver executes -/

def dirsW : List (List Rat) := [[0,0,1],[1,0,0],[0,-1,0]]
def quatsW : List (List Rat) := [[0,0,0,1],[1,0,0,0]]
def nmW : List Rat := [3/10, 1/10, 1/4]
/-- on axis-parallel vectors the 1-norm is the Euclidean norm -/
def normW (v : List Rat) : Rat := (v.map (fun x => if x < 0 then -x else x)).sum

private theorem sortK_nmW : sortK nmW = [1/10, 1/4, 3/10] :=
  sortK_eq_of_perm_sorted nmW _ (by decide +kernel) (by decide +kernel)

/-- witness for `decompose_fullGrid` / `decompose_inverts` (three directions, two rotations, three unsorted radii) -/
example : ∃ arr, fullGrid dirsW quatsW nmW = .ok (arr.map some) ∧
    decompose normW round8 arr = (dirsW, quatsW, [1, 5/2, 3]) := by
  have h := decompose_fullGrid normW round8 dirsW quatsW nmW (by decide +kernel) (by decide +kernel)
    (by decide +kernel) (by rw [sortK_nmW]; decide +kernel) (by decide +kernel) (by decide +kernel)
    (by rw [sortK_nmW]; decide +kernel) (by decide +kernel) (by decide +kernel) (by decide +kernel)
  have hr : ((sortK nmW).map (· * 10)).map round8 = [1, 5/2, 3] := by rw [sortK_nmW]; decide +kernel
  rw [hr] at h
  exact h

/-- witnesses for the index theorems: a 2·3·2 grid, indices from both ends, and one index too many -/
example : ∀ i ∈ [0, 5, -1, 11, -12], InRange (fullLen 2 3 2) i := by decide +kernel
example : ∃ i ∈ [0, 12], ¬ InRange (fullLen 2 3 2) i := by decide +kernel
example : quaternionIndex 2 3 2 (some [0, 5, -1, 11, -12]) = .ok [0, 1, 1, 1, 0] ∧
    positionIndex 2 3 2 (some [0, 5, -1, 11, -12]) = .ok [0, 2, 5, 5, 0] := by decide +kernel
/-- witnesses for `pos_spec`, `row_spec`, `full_row` -/
example : (7 : Nat) < [1, (5:Rat)/2, 3].length * dirsW.length := by decide +kernel
example : (13 : Nat) < nmW.length * dirsW.length * quatsW.length := by decide +kernel
/-- a swapped order would be visible on this witness: row 13 of the 3·3·2 grid is direction 0 at the third radius with
rotation 1 -/
example : (fullArray (positions dirsW ((sortK nmW).map (· * 10))) quatsW)[13]? = some [0,0,3,1,0,0,0] := by
  rw [sortK_nmW]; decide +kernel

/-- witnesses for the remaining hypotheses: `row_width` (3- and 4-vectors), `row_of_pair` (cell 7, rotation 1),
`pos_scalar_spec`, `helpers_match_array` (`|pos| = n_o·n_t`), `dedup_tile_repeat` (distinct keys),
`radii_stay_ascending` (gaps above 1e-8) -/
example : (∀ p ∈ positions dirsW [1, (5:Rat)/2, 3], p.length = 3) ∧ (∀ q ∈ quatsW, q.length = 4) := by decide +kernel
example : 7 < (positions dirsW [1, (5:Rat)/2, 3]).length ∧ 1 < quatsW.length := by decide +kernel
example : ([2, 3, 5] : List Rat)[4 % 3]? = some 3 ∧ ([7, 11] : List Rat)[4 / 3]? = some 11 ∧
    (positionsScalar ([2, 3, 5] : List Rat) [7, 11])[4]? = some (3 * 11) := by decide +kernel
example : (positions dirsW [1, (5:Rat)/2, 3]).length = dirsW.length * 3 := by decide +kernel
example : (quatsW.map (·.map round8)).Nodup := by decide +kernel
example : ([1, 5/2, 3] : List Rat).Pairwise (fun a b => a + 1/100000000 < b) := by decide +kernel
/-- the de-duplication keeps the FIRST of two rows that agree after rounding, un-rounded, and keeps the original order
(a concrete evaluation of the executable model, not a theorem about all inputs) -/
example : dedupKeepFirst lexLe (fun (r : List Rat) => r.map round8)
    [[3, 1], [1, 2], [3, 1 + 1/1000000000], [1, 2], [0, 0]] = [[3, 1], [1, 2], [0, 0]] := by
  rw [dedupKeepFirst_eq_rec]; decide +kernel

end Molgri.C09
