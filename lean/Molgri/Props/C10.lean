/-
C10 — pseudotrajectory frame k is the rigid placement prescribed by grid row k.

Property theorems about `Molgri.Rigid` (the model of `Pseudotrajectory.generate_pseudotrajectory`,
`get_pt_as_universe`, `OneMoleculeReader`, `TwoMoleculeWriter._center_both_molecules`, `PtWriter.__init__`).
Quantifiers: every field `K` (the driver runs the same definitions at `ℚ`), every pair of molecules (any atom count,
any masses with non-zero sum where a centre of mass is involved), every list of rows (arbitrary positions, arbitrary
quaternions, unit or not), every state of the Python object where a state is involved.

Vocabulary of the statements (defined in `Molgri/Lemmas/Rigid.lean`, not part of the model of the code):
`Mat3.mulVec` (matrix · column vector), `Mat3.det`, `Quat.mul` (Hamilton product, scalar last), `Quat.conj`,
`Quat.ofVec`, `Quat.smul`, `placeAtom c r a` = `a` moved to `R(r.q)·(x − c) + c + r.t`,
`place start r` = `start.map (placeAtom (com start) r)`, `specFrames static start k₀ rows` = the frames
`⟨k₀ + k, static ++ place start rows[k]⟩`, `finalMoving start cur rows` = `place start (last row)` (or `cur`),
`specPositions mol1 mol2 rows` = per row the positions of `mol1 ++ place mol2 row`.
-/
import Molgri.Lemmas.Rigid

namespace Molgri.C10
open Molgri.Rigid

/-! ## 1. "the rotation of row k's quaternion": the matrix the code uses -/
section rotation
variable {K : Type} [Field K]

/-- **Scalar-last convention, conjugation.**  `q·(v,0)·q̄ = |q|²·(R(q)v, 0)` for the Hamilton product with components
`(x, y, z, w)`: the matrix built from a (not necessarily unit) quaternion is the rotation that quaternion stands for. -/
theorem R_is_conjugation (q : Quat K) (v : V3 K) (hq : q.normSq ≠ 0) :
    (q.mul (Quat.ofVec v)).mul q.conj = Quat.smul q.normSq (Quat.ofVec ((rotMat q).mulVec v)) := by
  rw [rotNum_conj, rotMat_mulVec]
  apply Quat.ext' <;> simp only [Quat.smul, Quat.ofVec, V3.smul, mul_zero] <;> field_simp

/-- **Isometry**: `R(q)` preserves the scalar product … -/
theorem R_dot (q : Quat K) (u v : V3 K) (hq : q.normSq ≠ 0) :
    ((rotMat q).mulVec u).dot ((rotMat q).mulVec v) = u.dot v := by
  have h := rotNum_dot q u v
  rw [rotMat_mulVec, rotMat_mulVec]
  simp only [V3.dot, V3.smul] at h ⊢
  have h2 : ∀ a b c d e f : K, q.normSq⁻¹ * a * (q.normSq⁻¹ * b) + q.normSq⁻¹ * c * (q.normSq⁻¹ * d)
      + q.normSq⁻¹ * e * (q.normSq⁻¹ * f) = q.normSq⁻¹ * q.normSq⁻¹ * (a * b + c * d + e * f) := by
    intros; ring
  rw [h2, h]
  field_simp

/-- … hence lengths: `|R(q)u|² = |u|²`. -/
theorem R_isometry (q : Quat K) (u : V3 K) (hq : q.normSq ≠ 0) :
    ((rotMat q).mulVec u).normSq = u.normSq := R_dot q u u hq

/-- `R(q)` is a proper rotation (no reflection): `det R(q) = 1`. -/
theorem R_det_one (q : Quat K) (hq : q.normSq ≠ 0) : (rotMat q).det = 1 := by
  rw [rotMat_det, rotNum_det]
  field_simp

/-- Composition: the matrix of a Hamilton product is the product of the matrices, `R(p·q) v = R(p)(R(q) v)`. -/
theorem R_mul (p q : Quat K) (v : V3 K) (hp : p.normSq ≠ 0) (hq : q.normSq ≠ 0) :
    (rotMat (p.mul q)).mulVec v = (rotMat p).mulVec ((rotMat q).mulVec v) := by
  rw [rotMat_mulVec, rotMat_mulVec p, rotMat_mulVec q, rotNum_mul, normSq_mul, mulVec_smul]
  apply V3.ext' <;> simp only [V3.smul] <;> field_simp

/-- Normalisation: a non-unit quaternion and any non-zero multiple of it (in particular `−q`) give the same matrix,
"as scipy's `Rotation.from_quat` does". -/
theorem R_scale_invariant (s : K) (q : Quat K) (v : V3 K) (hs : s ≠ 0) (hq : q.normSq ≠ 0) :
    (rotMat (Quat.smul s q)).mulVec v = (rotMat q).mulVec v := by
  have hn : (Quat.smul s q).normSq = s * s * q.normSq := by simp only [Quat.smul, Quat.normSq]; ring
  have hm : (rotNum (Quat.smul s q)).mulVec v = V3.smul (s * s) ((rotNum q).mulVec v) := by
    apply V3.ext' <;> simp only [rotNum, Quat.smul, Mat3.mulVec, V3.dot, V3.smul, dbl] <;> ring
  rw [rotMat_mulVec, rotMat_mulVec q, hn, hm]
  apply V3.ext' <;> simp only [V3.smul] <;> field_simp

/-- The identity quaternion `(0,0,0,w)` does not rotate. -/
theorem R_identity (w : K) (v : V3 K) (hw : w ≠ 0) : (rotMat ⟨0, 0, 0, w⟩).mulVec v = v := by
  apply V3.ext' <;> simp only [rotMat, Quat.normSq, Mat3.mulVec, V3.dot, dbl] <;> field_simp <;> ring

end rotation

/-- Over an ordered field the only quaternion without a rotation is the zero quaternion (the `ValueError` clause). -/
theorem normSq_eq_zero_iff {K : Type} [Field K] [LinearOrder K] [IsStrictOrderedRing K] (q : Quat K) :
    q.normSq = 0 ↔ q.x = 0 ∧ q.y = 0 ∧ q.z = 0 ∧ q.w = 0 := by
  constructor
  · intro h
    simp only [Quat.normSq] at h
    have hx := mul_self_nonneg q.x
    have hy := mul_self_nonneg q.y
    have hz := mul_self_nonneg q.z
    have hw := mul_self_nonneg q.w
    refine ⟨?_, ?_, ?_, ?_⟩ <;> apply mul_self_eq_zero.mp <;> linarith
  · rintro ⟨hx, hy, hz, hw⟩
    simp [Quat.normSq, hx, hy, hz, hw]

/-- non-vacuity: a non-unit quaternion with non-zero norm. -/
example : (⟨1, 2, 3, 4⟩ : Quat Rat).normSq ≠ 0 := by simp [Quat.normSq]; norm_num

/-! ## 2. the generator: one frame per row, in row order, each a function of its own row only -/
section generator
variable {K : Type} [Field K] [DecidableEq K]

/-- **frame_count / frame_spec / state.**  For EVERY state `st` of the object and EVERY list of rows with non-zero
quaternions, one run of `generate_pseudotrajectory` succeeds, yields exactly the frames
`⟨st.currentFrame + k, static ++ place start rows[k]⟩` (`start` = the moving molecule's positions when the run began),
and leaves the moving molecule at the placement of the last row, the counter advanced by the number of rows. -/
theorem generate_spec (st : PtState K) (rows : List (Row K)) (hq : ∀ r ∈ rows, r.q.normSq ≠ 0) :
    generate st rows
      = .ok (⟨st.static, finalMoving st.moving st.moving rows, st.currentFrame + rows.length, st.pt⟩,
             specFrames st.static st.moving st.currentFrame rows) :=
  genLoop_ok st.moving rows st hq

/-- "exactly one frame per grid row". -/
theorem frame_count (st st' : PtState K) (rows : List (Row K)) (fs : List (Frame K))
    (h : generate st rows = .ok (st', fs)) : fs.length = rows.length := by
  by_cases hq : ∀ r ∈ rows, r.q.normSq ≠ 0
  · rw [generate_spec st rows hq] at h
    injection h with h; injection h with _ h2
    rw [← h2, specFrames_length]
  · have : ∃ r ∈ rows, r.q.normSq = 0 := by
      by_contra hc; apply hq; intro r hr h0; exact hc ⟨r, hr, h0⟩
    rw [generate, genLoop_error _ _ _ this] at h
    cases h

/-- **frame_spec**: "in row order. In frame k … the second molecule's atoms equal its reference geometry rotated about
its centre of mass by the rotation of row k's quaternion and translated …".  Whenever the run succeeds, frame `k` is
numbered `currentFrame + k` and consists of molecule 1 followed by `place start rows[k]`: it depends on row `k` only,
not on the rows before it (the positions are reset at the top of every iteration). -/
theorem frame_spec (st st' : PtState K) (rows : List (Row K)) (fs : List (Frame K))
    (h : generate st rows = .ok (st', fs)) (k : Nat) (hk : k < rows.length) :
    fs[k]? = some ⟨st.currentFrame + k, st.static ++ place st.moving rows[k]⟩ := by
  by_cases hq : ∀ r ∈ rows, r.q.normSq ≠ 0
  · rw [generate_spec st rows hq] at h
    injection h with h; injection h with _ h2
    rw [← h2, specFrames_getElem?, List.getElem?_eq_getElem hk]; rfl
  · have : ∃ r ∈ rows, r.q.normSq = 0 := by
      by_contra hc; apply hq; intro r hr h0; exact hc ⟨r, hr, h0⟩
    rw [generate, genLoop_error _ _ _ this] at h
    cases h

/-- The only failure: a row whose quaternion has zero norm makes the whole run raise `ValueError`
(as `Rotation.from_quat` does), wherever that row stands. -/
theorem generate_error (st : PtState K) (rows : List (Row K)) (hq : ∃ r ∈ rows, r.q.normSq = 0) :
    generate st rows = .error "ValueError" :=
  genLoop_error st.moving rows st hq

/-- "In frame k the first molecule's atoms are unchanged": the first `|mol1|` atoms of every frame are molecule 1. -/
theorem mol1_unchanged (st st' : PtState K) (rows : List (Row K)) (fs : List (Frame K))
    (h : generate st rows = .ok (st', fs)) (f : Frame K) (hf : f ∈ fs) :
    f.atoms.take st.static.length = st.static ∧ f.atoms.length = st.static.length + st.moving.length := by
  obtain ⟨k, hk, hfk⟩ := List.getElem_of_mem hf
  have hlen := frame_count st st' rows fs h
  have := frame_spec st st' rows fs h k (by omega)
  rw [List.getElem?_eq_getElem hk, hfk] at this
  injection this with this
  subst this
  simp [place]

omit [DecidableEq K] in
/-- "atom order, names and types are those of molecule 1 followed by molecule 2" (masses too). -/
theorem atom_order (static start : List (Atom K)) (r : Row K) :
    (static ++ place start r).map (·.name) = static.map (·.name) ++ start.map (·.name) ∧
    (static ++ place start r).map (·.type) = static.map (·.type) ++ start.map (·.type) ∧
    (static ++ place start r).map (·.mass) = static.map (·.mass) ++ start.map (·.mass) := by
  simp [place, placeAtom, Atom.setPos, List.map_map, Function.comp_def]

/-- What a SECOND run of the generator on the same object does (the code reads `starting_positions` from the object's
current state): it starts from the placement of the last row of the first run and keeps counting.  This is why
`get_pt_as_universe` "only uses the generator once". -/
theorem second_run (st : PtState K) (rows rows' : List (Row K)) (hq : ∀ r ∈ rows, r.q.normSq ≠ 0)
    (hq' : ∀ r ∈ rows', r.q.normSq ≠ 0) (st1 : PtState K) (fs1 : List (Frame K))
    (h1 : generate st rows = .ok (st1, fs1)) :
    ∃ st2, generate st1 rows' = .ok (st2, specFrames st.static (finalMoving st.moving st.moving rows)
                                            (st.currentFrame + rows.length) rows') := by
  rw [generate_spec st rows hq] at h1
  injection h1 with h1; injection h1 with h1 _
  subst h1
  exact ⟨_, generate_spec _ rows' hq'⟩

/-! ### `get_pt_as_universe` -/

/-- `get_pt_as_universe` on a fresh object, non-empty grid, non-zero quaternions: the trajectory has one frame per row
and frame `k` holds molecule 1 followed by `place mol2 rows[k]`; the result is cached in the object. -/
theorem getPt_fresh (mol1 mol2 : List (Atom K)) (rows : List (Row K)) (hne : rows ≠ [])
    (hq : ∀ r ∈ rows, r.q.normSq ≠ 0) :
    ∃ st', getPt (PtState.init mol1 mol2) rows = .ok (st', specPositions mol1 mol2 rows)
      ∧ st'.pt = some (specPositions mol1 mol2 rows) := by
  unfold getPt
  simp only [PtState.init]
  rw [generate_spec _ rows hq]
  cases rows with
  | nil => exact absurd rfl hne
  | cons r rs =>
    have hp := specFrames_positions mol1 mol2 0 (r :: rs)
    simp only [specFrames] at hp ⊢
    rw [hp]
    exact ⟨_, rfl, rfl⟩

/-- once computed, the trajectory is returned unchanged by every later call (whatever happened to the grid). -/
theorem getPt_cached (st : PtState K) (rows : List (Row K)) (p : List (List (V3 K))) (h : st.pt = some p) :
    getPt st rows = .ok (st, p) := by
  unfold getPt; rw [h]

/-- an empty grid array: `universes[0]` raises `IndexError`. -/
theorem getPt_empty (mol1 mol2 : List (Atom K)) : getPt (PtState.init mol1 mol2) [] = .error "IndexError" := by
  simp [getPt, PtState.init, generate, genLoop]

end generator

/-! ## 3. what the placement is: centre of mass at the row's position, rigid, reader-centred input -/
section placement
variable {K : Type} [Field K]

/-- **COM placement.**  The centre of mass of the placed molecule is the reference centre of mass moved by the row's
position (rotation about the centre of mass does not move it). -/
theorem com_placed (start : List (Atom K)) (r : Row K) (hM : totalMass start ≠ 0) :
    com (place start r) = (com start).add r.t := by
  have h : place start r = start.map fun a =>
      a.setPos (((rotMat r.q).mulVec a.pos).add (((com start).sub ((rotMat r.q).mulVec (com start))).add r.t)) := by
    unfold place
    exact List.map_congr_left (fun a _ => placeAtom_affine _ _ _)
  rw [h, com_affine _ _ _ hM]
  apply V3.ext' <;> simp only [V3.add, V3.sub] <;> ring

/-- "molecules read through the package's reader (centred at their centre of mass)": after `OneMoleculeReader`
the centre of mass is the origin. -/
theorem reader_centred (as : List (Atom K)) (hM : totalMass as ≠ 0) : com (center as) = V3.zero := by
  unfold center
  rw [com_translate _ _ hM]
  apply V3.ext' <;> simp [V3.add, V3.neg, V3.zero]

/-- "… translated so that its centre of mass sits at row k's position": for a molecule that came through the reader. -/
theorem com_placed_centred (raw : List (Atom K)) (r : Row K) (hM : totalMass raw ≠ 0) :
    com (place (center raw) r) = r.t := by
  have hM' : totalMass (center raw) ≠ 0 := by unfold center; rw [totalMass_translate]; exact hM
  rw [com_placed _ _ hM', reader_centred _ hM]
  apply V3.ext' <;> simp [V3.add, V3.zero]

/-- **Rigidity, atom by atom.**  Two atoms placed by the same row keep their squared distance. -/
theorem placeAtom_distance (c : V3 K) (r : Row K) (a b : Atom K) (hq : r.q.normSq ≠ 0) :
    ((placeAtom c r a).pos.sub (placeAtom c r b).pos).normSq = (a.pos.sub b.pos).normSq := by
  have h : (placeAtom c r a).pos.sub (placeAtom c r b).pos = (rotMat r.q).mulVec (a.pos.sub b.pos) := by
    simp only [placeAtom, Atom.setPos]
    apply V3.ext' <;> simp only [Mat3.mulVec, V3.dot, V3.add, V3.sub] <;> ring
  rw [h, R_isometry _ _ hq]

/-- "all intramolecular distances are preserved": every pair of atoms of the placed molecule. -/
theorem distances_preserved (start : List (Atom K)) (r : Row K) (hq : r.q.normSq ≠ 0) (i j : Nat)
    (hi : i < start.length) (hj : j < start.length) :
    (((place start r)[i]'(by simpa [place] using hi)).pos.sub ((place start r)[j]'(by simpa [place] using hj)).pos).normSq
      = (start[i].pos.sub start[j].pos).normSq := by
  simp only [place, List.getElem_map]
  exact placeAtom_distance _ _ _ _ hq

/-- every atom keeps its squared distance to the centre of mass (which moves to `com + t`). -/
theorem distance_to_com_preserved (start : List (Atom K)) (r : Row K) (hq : r.q.normSq ≠ 0) (a : Atom K) :
    ((placeAtom (com start) r a).pos.sub ((com start).add r.t)).normSq = (a.pos.sub (com start)).normSq := by
  have h : (placeAtom (com start) r a).pos.sub ((com start).add r.t) = (rotMat r.q).mulVec (a.pos.sub (com start)) := by
    simp only [placeAtom, Atom.setPos]
    apply V3.ext' <;> simp only [Mat3.mulVec, V3.dot, V3.add, V3.sub] <;> ring
  rw [h, R_isometry _ _ hq]

/-- the reader only shifts: names, types, masses and all position differences are those of the file. -/
theorem reader_rigid (as : List (Atom K)) :
    (center as).map (·.name) = as.map (·.name) ∧ (center as).map (·.type) = as.map (·.type) ∧
    (center as).map (·.mass) = as.map (·.mass) ∧
    ∀ i j (hi : i < as.length) (hj : j < as.length),
      ((center as)[i]'(by simpa [center, translate] using hi)).pos.sub ((center as)[j]'(by simpa [center, translate] using hj)).pos
        = as[i].pos.sub as[j].pos := by
  refine ⟨?_, ?_, ?_, ?_⟩
  · simp [center, translate, Atom.setPos, List.map_map, Function.comp_def]
  · simp [center, translate, Atom.setPos, List.map_map, Function.comp_def]
  · simp [center, translate, Atom.setPos, List.map_map, Function.comp_def]
  · intro i j hi hj
    simp only [center, translate, List.getElem_map, Atom.setPos]
    apply V3.ext' <;> simp only [V3.add, V3.sub] <;> ring

/-- "both molecules centred by the writer" (`_center_both_molecules` after the reader): centring is idempotent … -/
theorem center_idempotent (as : List (Atom K)) (hM : totalMass as ≠ 0) : center (center as) = center as := by
  have h0 : com (center as) = V3.zero := reader_centred as hM
  have h1 : center (center as) = translate (com (center as)).neg (center as) := rfl
  rw [h1, h0]
  unfold translate
  conv_rhs => rw [← List.map_id (center as)]
  apply List.map_congr_left
  intro a _
  cases a with
  | mk n t m p =>
    cases p
    simp [Atom.setPos, V3.add, V3.neg, V3.zero]

/-- … so the `PtWriter` path produces exactly the pseudotrajectory of the two reader-centred molecules. -/
theorem ptWriter_eq [DecidableEq K] (raw1 raw2 : List (Atom K)) (rows : List (Row K))
    (h1 : totalMass raw1 ≠ 0) (h2 : totalMass raw2 ≠ 0) :
    ptWriter raw1 raw2 rows = getPt (PtState.init (center raw1) (center raw2)) rows := by
  unfold ptWriter
  rw [center_idempotent _ h1, center_idempotent _ h2]

/-- **The `PtWriter` path, end to end**: both files read through the reader, centred again by the writer, then
`get_pt_as_universe`: one frame per row, frame `k` = centred molecule 1 followed by the placement of centred molecule 2
prescribed by row `k` (whose centre of mass is then exactly `rows[k].t`, by `com_placed_centred`). -/
theorem writer_spec [DecidableEq K] (raw1 raw2 : List (Atom K)) (rows : List (Row K))
    (h1 : totalMass raw1 ≠ 0) (h2 : totalMass raw2 ≠ 0) (hne : rows ≠ []) (hq : ∀ r ∈ rows, r.q.normSq ≠ 0) :
    ∃ st', ptWriter raw1 raw2 rows = .ok (st', specPositions (center raw1) (center raw2) rows) := by
  rw [ptWriter_eq _ _ _ h1 h2]
  obtain ⟨st', h, _⟩ := getPt_fresh (center raw1) (center raw2) rows hne hq
  exact ⟨st', h⟩

end placement

/-- Why the code multiplies by `R.T` from the right (a witness, not a theorem about all inputs): for the quarter turn
about `z`, `q = (0,0,1,1)`, the row-vector product with the untransposed matrix sends `(1,0,0)` to `(0,−1,0)`, the
rotation sends it to `(0,1,0)`. -/
theorem transpose_matters :
    vecMul ⟨1, 0, 0⟩ (rotMat (⟨0, 0, 1, 1⟩ : Quat Rat)) ≠ (rotMat ⟨0, 0, 1, 1⟩).mulVec ⟨1, 0, 0⟩ := by
  intro h
  have := congrArg V3.y h
  simp [vecMul, rotMat, Mat3.mulVec, V3.dot, Quat.normSq, dbl] at this
  norm_num at this

/-! ## non-vacuity of the hypotheses (concrete, non-trivial inputs) -/

/-- a water-like molecule with three different masses has non-zero total mass … -/
example : totalMass ([⟨"O", "O", 16, ⟨5, 5, 5⟩⟩, ⟨"H", "H", 1, ⟨6, 5, 5⟩⟩, ⟨"D", "D", 2, ⟨5, 6, 5⟩⟩] : List (Atom Rat)) ≠ 0 := by
  simp [totalMass]; norm_num

/-- … and a grid of two rows with a unit and a non-unit quaternion satisfies the hypothesis of `generate_spec`. -/
example : ∀ r ∈ ([⟨⟨1, 2, 3⟩, ⟨0, 0, 0, 1⟩⟩, ⟨⟨0, 0, 0⟩, ⟨1, 2, 3, 4⟩⟩] : List (Row Rat)), r.q.normSq ≠ 0 := by
  intro r hr
  simp only [List.mem_cons, List.not_mem_nil, or_false] at hr
  rcases hr with rfl | rfl <;> (simp [Quat.normSq]; try norm_num)

/-- … so a run on a fresh object with that grid does succeed (the hypothesis `generate st rows = .ok (st', fs)` of
`frame_count`, `frame_spec`, `mol1_unchanged` is satisfiable by a two-molecule, two-row input). -/
example : ∃ st' fs, generate
    (PtState.init ([⟨"O", "O", 16, ⟨5, 5, 5⟩⟩, ⟨"H", "H", 1, ⟨6, 5, 5⟩⟩] : List (Atom Rat)) [⟨"N", "N", 14, ⟨1, 0, 0⟩⟩, ⟨"H", "H", 1, ⟨2, 1, 0⟩⟩])
    [⟨⟨1, 2, 3⟩, ⟨0, 0, 0, 1⟩⟩, ⟨⟨0, 0, 0⟩, ⟨1, 2, 3, 4⟩⟩] = .ok (st', fs) := by
  refine ⟨_, _, generate_spec _ _ ?_⟩
  intro r hr
  simp only [List.mem_cons, List.not_mem_nil, or_false] at hr
  rcases hr with rfl | rfl <;> (simp [Quat.normSq]; try norm_num)

end Molgri.C10
