/-
C11 — frame assignment equals geometric membership in the grid cell.

Property theorems about `Molgri.Assign` (the model of `AssignmentTool`, transitions.py:34-215, and of
`get_between_radii`, translations.py:108-134).  Quantifiers: every grid (radii strictly increasing, `n_t ≥ 2`; directions;
rotations), every distance / centre of mass / rotation, every reference molecule.  Exact arithmetic over `ℚ`.

External parameters of the model (assumed, validated by the harness on every run, NOT proved):
MDAnalysis `principal_axes()` returns, in a rigidly moved copy, the reference axes rotated and multiplied by an even number
of sign flips (right-handed frames) — hypothesis `hpa` below; `np.linalg.norm` is the Euclidean norm (`d` below);
scipy's rotation angle is strictly decreasing in the trace; `sqrt` is increasing.
-/
import Molgri.Lemmas.Assign
import Mathlib.Tactic.NormNum

namespace Molgri.C11
open Molgri.Assign

/-! ## 1. "t is the shell whose boundaries contain the centre-of-mass distance (equivalently the nearest radius)" -/

/-- `np.argmin` of the model returns the first index of the minimum (the meaning of "nearest"). -/
theorem argmin_is_first_minimum (xs : List Rat) (h : xs ≠ []) (i : Nat) :
    argminIdx xs = i ↔
      ∃ v, xs[i]? = some v ∧ (∀ (j : Nat) y, xs[j]? = some y → v ≤ y) ∧ (∀ (j : Nat) y, j < i → xs[j]? = some y → v < y) :=
  argminIdx_eq_iff xs h i

/-- The shell boundaries the property speaks of are the between-radii of `molgri/space/translations.py`:
`get_between_radii(t)[k] = (t_k + t_{k+1})/2`, the last one `t_last + (t_last − t_prev)/2`. -/
theorem between_radii_spec (t : List Rat) (hs : t.Pairwise (· < ·)) (hn : 2 ≤ t.length) (hpos : ∀ r ∈ t, 0 ≤ r) :
    betweenRadii t = .ok ((List.range t.length).map (shellUpper t)) :=
  betweenRadii_eq t hs hn hpos

/-- **Nearest radius ⇔ shell containment** (outliers excluded): frame distance `d` is assigned shell `k` exactly when
`B_{k-1} < d ≤ B_k` (no lower boundary for the first shell).  This also fixes what the code does ON a boundary:
the lower shell wins, and the outermost boundary itself still belongs to the last shell. -/
theorem nearest_radius_iff_shell (t : List Rat) (hs : t.Pairwise (· < ·)) (hn : 2 ≤ t.length) (d : Rat) (k : Nat) :
    tAssign t d false = .ok (some k) ↔
      k < t.length ∧ (k = 0 ∨ shellUpper t (k - 1) < d) ∧ d ≤ shellUpper t k :=
  Molgri.Assign.nearest_radius_iff_shell t hs hn d k

/-- "Placements beyond the outermost shell boundary are assigned NaN unless outliers are included": NaN exactly beyond
`t_last + (t_last − t_prev)/2`, which is the last between-radius. -/
theorem outlier_bound (t : List Rat) (hn : 2 ≤ t.length) (d : Rat) :
    tAssign t d false = .ok none ↔ shellUpper t (t.length - 1) < d :=
  Molgri.Assign.outlier_bound t hn d

/-- With outliers included nothing is NaN and the last shell is unbounded; all other boundaries are unchanged. -/
theorem nearest_radius_with_outliers (t : List Rat) (hs : t.Pairwise (· < ·)) (hne : t ≠ []) (d : Rat) (k : Nat) :
    tAssign t d true = .ok (some k) ↔
      k < t.length ∧ (k = 0 ∨ shellUpper t (k - 1) < d) ∧ (k + 1 = t.length ∨ d ≤ shellUpper t k) :=
  Molgri.Assign.nearest_radius_with_outliers t hs hne d k

/-- non-vacuity: radii `[3, 5, 8]` (Å); distance 6.5 lies on the boundary of shells 1 and 2 and goes to shell 1 -/
example : ([3, 5, 8] : List Rat).Pairwise (· < ·) ∧ 2 ≤ ([3, 5, 8] : List Rat).length ∧ (∀ r ∈ ([3, 5, 8] : List Rat), 0 ≤ r)
    ∧ shellUpper [3, 5, 8] 1 = 13 / 2 ∧ shellUpper [3, 5, 8] 2 = 19 / 2 := by
  refine ⟨by simp; norm_num, by simp, by simp, by simp [shellUpper]; norm_num, by simp [shellUpper]; norm_num⟩

/-! ## 2. "o the direction-grid point nearest to the centre-of-mass direction" -/

/-- **argmin chord ⇔ argmax dot** on unit grid vectors (`|o − u|² = 1 + |u|² − 2 o·u`). -/
theorem o_argmin_iff_argmax_dot (O : List V3) (u : V3) (hunit : ∀ o ∈ O, V3.normSq o = 1) :
    oAssign O u = argmaxIdx (O.map fun o => V3.dot o u) :=
  Molgri.Assign.o_argmin_iff_argmax_dot O u hunit

/-- The cosine metric (`cartesian_grid=False`) selects the same index as the Euclidean one. -/
theorem o_cos_same_index (O : List (V3 × Rat)) (u : V3) (nu : Rat) (hnu : 0 < nu)
    (hunit : ∀ on ∈ O, V3.normSq on.1 = 1 ∧ on.2 = 1) :
    oAssignCos O u nu = oAssign (O.map Prod.fst) u :=
  Molgri.Assign.o_cos_same_index O u nu hnu hunit

example : ∀ o ∈ [(⟨1, 0, 0⟩ : V3), ⟨0, 1, 0⟩, ⟨3 / 5, 0, -4 / 5⟩], V3.normSq o = 1 := by
  simp [V3.normSq, V3.dot]; norm_num

/-! ## 3. "b the grid rotation with the smallest rotation angle to the molecule's actual rotation" -/

/-- **Trace identity** `tr(R(q) R(p)ᵀ) = 4 (q·p)² − 1` for unit quaternions (scalar-last, scipy's convention; `rotMat`
normalises like `Rotation(q)`), so the rotation angle `θ`, `tr = 1 + 2 cos θ`, is smallest where `|q·p|` is largest. -/
theorem trace_identity (q p : Q4) (hq : Q4.normSq q = 1) (hp : Q4.normSq p = 1) :
    M3.trace (M3.mul (rotMat q) (M3.transpose (rotMat p))) = 4 * (Q4.dot q p) ^ 2 - 1 := by
  rw [trace_rotMat q p (by rw [hq]; exact one_ne_zero) (by rw [hp]; exact one_ne_zero), hq, hp]; ring

/-- The same identity before normalisation, in any commutative ring (polynomial identity in the eight components):
`tr(H(q) H(p)ᵀ) = 4 (q·p)² − |q|²|p|²` for the homogeneous matrices `H(q) = |q|² R(q)`. -/
theorem trace_identity_ring {K : Type*} [CommRing K] (x y z w a b c d : K) :
    (w * w + x * x - y * y - z * z) * (d * d + a * a - b * b - c * c) + (2 * (x * y - w * z)) * (2 * (a * b - d * c))
        + (2 * (x * z + w * y)) * (2 * (a * c + d * b))
      + ((2 * (x * y + w * z)) * (2 * (a * b + d * c)) + (w * w - x * x + y * y - z * z) * (d * d - a * a + b * b - c * c)
        + (2 * (y * z - w * x)) * (2 * (b * c - d * a)))
      + ((2 * (x * z - w * y)) * (2 * (a * c - d * b)) + (2 * (y * z + w * x)) * (2 * (b * c + d * a))
        + (w * w - x * x - y * y + z * z) * (d * d - a * a - b * b + c * c))
      = 4 * (x * a + y * b + z * c + w * d) ^ 2 - (x * x + y * y + z * z + w * w) * (a * a + b * b + c * c + d * d) := by
  ring

/-- **Smallest rotation angle ⇔ largest `(q·p)²/|q|²`**: when the molecule's rotation is `R(p)`, the model of
`_get_quaternion_assignments` does not raise and returns the first grid index maximising `(q·p)²/|q|²`. -/
theorem b_argmin_angle_iff_argmax_dot (B : List Q4) (p : Q4) (hB : B ≠ [])
    (hq : ∀ q ∈ B, Q4.normSq q ≠ 0) (hp : Q4.normSq p ≠ 0) :
    bAssign B (rotMat p) = .ok (argmaxIdx (B.map fun q => (Q4.dot q p) ^ 2 / Q4.normSq q)) :=
  Molgri.Assign.b_argmin_angle_iff_argmax_dot B p hB hq hp

/-- … and for unit grid quaternions that is the largest `|q·p|` (the sign-folded quaternion distance of C04). -/
theorem b_unit_argmax_absdot (B : List Q4) (p : Q4) (hunit : ∀ q ∈ B, Q4.normSq q = 1) :
    argmaxIdx (B.map fun q => (Q4.dot q p) ^ 2 / Q4.normSq q) = argmaxIdx (B.map fun q => absR (Q4.dot q p)) :=
  Molgri.Assign.b_unit_argmax_absdot B p hunit

example : ∀ q ∈ [(⟨0, 0, 0, 1⟩ : Q4), ⟨1, 0, 0, 0⟩, ⟨1 / 2, 1 / 2, 1 / 2, 1 / 2⟩], Q4.normSq q = 1 := by
  simp [Q4.normSq, Q4.dot]; norm_num

/-! ## 4. "the assigned cell index is (t·n_o + o)·n_b + b" -/

/-- **Index composition and its div/mod inverse**; NaN propagates from `t`. -/
theorem index_compose_inverse (t o b nO nB : Nat) (ho : o < nO) (hb : b < nB) :
    compose (some t) o b nO nB = some ((t * nO + o) * nB + b) ∧ compose none o b nO nB = none ∧
    ((t * nO + o) * nB + b) % nB = b ∧ ((t * nO + o) * nB + b) / nB % nO = o ∧ ((t * nO + o) * nB + b) / (nB * nO) = t := by
  have h1 : ((t * nO + o) * nB + b) / nB = t * nO + o := by
    rw [Nat.add_comm, Nat.add_mul_div_right _ _ (by omega), Nat.div_eq_of_lt hb, Nat.zero_add]
  refine ⟨rfl, rfl, ?_, ?_, ?_⟩
  · rw [Nat.add_comm, Nat.add_mul_mod_self_right, Nat.mod_eq_of_lt hb]
  · rw [h1, Nat.add_comm, Nat.add_mul_mod_self_right, Nat.mod_eq_of_lt ho]
  · rw [← Nat.div_div_eq_div_mul, h1, Nat.add_comm, Nat.add_mul_div_right _ _ (by omega), Nat.div_eq_of_lt ho, Nat.zero_add]

/-- The composed index stays inside the grid. -/
theorem index_in_range (t o b nT nO nB : Nat) (ht : t < nT) (ho : o < nO) (hb : b < nB) :
    (t * nO + o) * nB + b < nT * nO * nB := by
  have h1 : t * nO + o + 1 ≤ nT * nO := by nlinarith
  nlinarith

example : (2 : Nat) < 7 ∧ (3 : Nat) < 9 := by omega

/-! ## 5. rotation recovered from principal axes with sign fixing -/

/-- **Sign-fixing table logic**: the result of the atom loop + the one-unknown table is equivariant under the sign
changes `s` (an even number of flips) that relate two right-handed principal frames: same outcome (value or `ValueError`),
directions multiplied by `s`. -/
theorem sign_table_equivariant (s : I3) (hs : EvenFlip s) (L : List I3) (hL : ∀ a ∈ L, SgnTriple a) :
    positiveDirections (L.map (flip s)) = (positiveDirections L).map (flip s) :=
  positiveDirections_flip s hs L hL

/-- whatever the table returns is a triple of `±1` (so the division `dirs / reference_direction` is defined) -/
theorem sign_table_result_pm (L : List I3) (hL : ∀ a ∈ L, SgnTriple a) (e : I3) (h : positiveDirections L = .ok e) :
    IsPM e.1 ∧ IsPM e.2.1 ∧ IsPM e.2.2 :=
  positiveDirections_ok_pm L hL e h

example : EvenFlip (-1, 1, -1) ∧ ∀ a ∈ [((1 : Int), (0 : Int), (-1 : Int)), (1, 1, 0)], SgnTriple a := by
  simp [EvenFlip, IsPM, SgnTriple, IsSgn]

/-- **Sign fixing is total where it can be** (full statement; it was false before fix c9b2235, finding
`C11:last_atom_on_axis`): the directions are found if and only if some atom has non-zero (rounded) projections on at
least two principal axes; `ValueError` only when every atom lies on a principal axis. -/
theorem sign_fix_total (L : List I3) :
    (∃ d, positiveDirections L = .ok d) ↔ ∃ a ∈ L, zeros a ≤ 1 := by
  have hz := dirLoop_zeros L (0, 0, 0) 4 (Or.inr ⟨rfl, rfl⟩)
  have h0 : ¬ zeros ((0, 0, 0) : I3) ≤ 1 := by decide
  simp only [h0, false_or] at hz
  rw [← hz]
  unfold positiveDirections fixDirections
  constructor
  · rintro ⟨d, h⟩
    by_contra hc
    have h1 : ¬ zeros (dirLoop L (0, 0, 0) 4) = 1 := by omega
    have h2 : zeros (dirLoop L (0, 0, 0) 4) > 1 := by omega
    simp [h1, h2] at h
  · intro h
    by_cases h1 : zeros (dirLoop L (0, 0, 0) 4) = 1
    · exact ⟨_, by simp [h1]; rfl⟩
    · have h2 : ¬ zeros (dirLoop L (0, 0, 0) 4) > 1 := by omega
      exact ⟨_, by simp [h1, h2]; rfl⟩

/-- Regression witness of finding `C11:last_atom_on_axis` (planar symmetric water in the order H,H,O): the first atom
fixes two axes, the last one lies on an axis.  The pre-fix loop ended with the last atom and raised `ValueError`; the
model of the repaired code returns the directions of the first atom completed by the right-handed table. -/
theorem sign_fix_last_atom_on_axis_witness :
    positiveDirections [(1, 1, 0), (1, 0, 0)] = .ok (1, 1, 1) ∧
    positiveDirections [(1, 0, 0), (-1, 1, 0), (0, 0, 0)] = .ok (-1, 1, -1) := by
  decide

/-
Hypothesis that is NOT discharged (why `sign_fix_recovers` stays `_partial`): the frame's atom positions are the EXACT
rigid images of the reference positions (`hfpos` in `pt_roundtrip`).  In the implementation they are float32 numbers; a
structurally zero projection carries rounding noise (≤ 1e-5 Å for coordinates up to 32 Å and moment gaps ≥ 0.5 %).
Before fix c9b2235 the zero test had the threshold 5·10⁻⁷ Å and the noise changed the sign pattern (finding
`C11:sign_noise`); with the threshold 5·10⁻⁴ Å it no longer does on the explored inputs, but that is established by the
correspondence check and the oracle, not by a theorem (it is a statement about float rounding).
-/
/-- **`sign_fix_recovers` (partial)**: let the frame be a rigid image `p ↦ R p + T` (`RᵀR = 1`) of the reference molecule
and let its principal axes be `sᵢ · R aᵢ` with an even number of flips (assumption on `principal_axes`, both frames
right-handed).  If the reference directions are found (`href`), the frame's directions are `s ⊙ refDir` and
`rotationFromAxes` returns exactly `R`. -/
theorem sign_fix_recovers_partial (thr : Rat) (hthr : 0 ≤ thr) (m : RefMol) (refDir : I3)
    (hlen : m.masses.length = m.pos.length) (hM : m.masses.sum ≠ 0) (hdetA : M3.det m.pa ≠ 0)
    (href : refDirections thr m = .ok refDir)
    (R : M3) (hR : M3.mul (M3.transpose R) R = M3.one) (T : V3) (s : I3) (hs : EvenFlip s) :
    positiveDirections ((m.pos.map (rigid R T)).map (atomSigns thr (flipRows s (M3.mul m.pa (M3.transpose R)))
        (centerOfMass m.masses (m.pos.map (rigid R T))))) = .ok (flip s refDir) ∧
    rotationFromAxes (flipRows s (M3.mul m.pa (M3.transpose R))) m.pa (flip s refDir) refDir = R :=
  sign_fix_recovers thr hthr m refDir hlen hM hdetA href R hR T s hs

/-- What a single noisy sign does (witness on the model): reference pattern `(+,+,0)` → directions `(1,1,1)`; the same
atom seen as `(+,+,−)` in the frame gives `(1,1,−1)`, and the recovered matrix has determinant −1. -/
theorem sign_noise_witness :
    positiveDirections [(1, 1, 0)] = .ok (1, 1, 1) ∧ positiveDirections [(1, 1, -1)] = .ok (1, 1, -1) ∧
    M3.det (rotationFromAxes M3.one M3.one (1, 1, -1) (1, 1, 1)) = -1 := by
  refine ⟨by decide, by decide, ?_⟩
  simp [rotationFromAxes, directionFrame, M3.one, M3.transpose, M3.inv, M3.det, M3.mul, V3.smul, V3.dot]

/-- centre of mass is equivariant under rigid motions (used above; MDAnalysis' `center_of_mass` is modelled exactly) -/
theorem center_of_mass_rigid (R : M3) (T : V3) (ms : List Rat) (ps : List V3) (hlen : ms.length = ps.length)
    (hM : ms.sum ≠ 0) : centerOfMass ms (ps.map (rigid R T)) = rigid R T (centerOfMass ms ps) :=
  centerOfMass_rigid R T ms ps hlen hM

/-! ## 6a. the whole statement for an arbitrary rigid placement -/

/-- **Frame assignment = geometric membership, for every rigid placement** (Euclidean metric; unit grid directions,
non-zero grid quaternions).  The frame is the reference molecule moved by `p ↦ R(p₀) p + T` for ANY quaternion `p₀ ≠ 0`
and ANY translation; `hpa` is the assumption on `principal_axes`.  Then the model of `get_full_assignments` returns
`t` = the radial rule's shell for the frame's distance (characterised by `nearest_radius_iff_shell` / `outlier_bound`),
`o` = the grid direction with the largest dot product with the normalised centre of mass,
`b` = the grid rotation with the largest `(q·p₀)²/|q|²` (smallest rotation angle to `R(p₀)`),
and the index `(t·n_o + o)·n_b + b` (NaN when `t` is NaN). -/
theorem assign_eq_membership (thr : Rat) (hthr : 0 ≤ thr) (g : Grid) (m : RefMol) (refDir : I3) (outl : Bool)
    (hB : g.b ≠ []) (hq : ∀ q ∈ g.b, Q4.normSq q ≠ 0) (hou : ∀ o ∈ g.o, V3.normSq o = 1)
    (hlen : m.masses.length = m.pos.length) (hM : m.masses.sum ≠ 0) (hdetA : M3.det m.pa ≠ 0)
    (href : refDirections thr m = .ok refDir)
    (p : Q4) (hp : Q4.normSq p ≠ 0) (T : V3) (s : I3) (hs : EvenFlip s) (f : Frame)
    (hfpos : f.pos = m.pos.map (rigid (rotMat p) T))
    (hpa : f.pa = flipRows s (M3.mul m.pa (M3.transpose (rotMat p))))
    (tk : Option Nat) (htk : tAssign g.t f.d outl = .ok tk) :
    assignFrame thr g m refDir outl true f = .ok
      ⟨tk,
       argmaxIdx (g.o.map fun o => V3.dot o (normalise (rigid (rotMat p) T (centerOfMass m.masses m.pos)) f.d)),
       argmaxIdx (g.b.map fun q => (Q4.dot q p) ^ 2 / Q4.normSq q),
       flip s refDir,
       compose tk
         (argmaxIdx (g.o.map fun o => V3.dot o (normalise (rigid (rotMat p) T (centerOfMass m.masses m.pos)) f.d)))
         (argmaxIdx (g.b.map fun q => (Q4.dot q p) ^ 2 / Q4.normSq q)) g.o.length g.b.length⟩ :=
  Molgri.Assign.assign_eq_membership thr hthr g m refDir outl hB hq hou hlen hM hdetA href p hp T s hs f hfpos hpa tk htk

/-- The whole frame assignment does not depend on the metric flag (`cartesian_grid`), for unit grid directions (norms
supplied as 1) and a positive norm of the normalised centre of mass — so `assign_eq_membership` holds for both metrics. -/
theorem metric_independent (thr : Rat) (g : Grid) (m : RefMol) (refDir : I3) (outl : Bool)
    (hou : ∀ o ∈ g.o, V3.normSq o = 1) (hNlen : g.o.length = g.oNorm.length) (hN : ∀ n ∈ g.oNorm, n = 1)
    (f : Frame) (hnu : 0 < f.nu) :
    assignFrame thr g m refDir outl false f = assignFrame thr g m refDir outl true f :=
  assignFrame_metric_independent thr g m refDir outl hou hNlen hN f hnu

/-- **The assigned radius is a nearest radius**: no grid radius is closer to the frame's distance. -/
theorem assigned_radius_is_nearest (t : List Rat) (d : Rat) (outl : Bool) (k : Nat) (h : tAssign t d outl = .ok (some k))
    (j : Nat) (hj : j < t.length) :
    ∃ hk : k < t.length, absR (t[k] - d) ≤ absR (t[j] - d) := by
  have hne : t ≠ [] := by intro h0; subst h0; simp at hj
  have hk : argminIdx (t.map fun r => absR (r - d)) = k := by
    cases outl with
    | true => rw [tAssign_true_eq t hne] at h; simpa using h
    | false =>
      cases t with
      | nil => exact absurd rfl hne
      | cons a rest =>
        simp only [tAssign, Bool.false_eq_true, if_false] at h
        split at h
        · split at h
          · simp [pure, Except.pure] at h
          · simpa [pure, Except.pure] using h
        · simp [throw, throwThe, MonadExceptOf.throw] at h
  have hne' : t.map (fun r => absR (r - d)) ≠ [] := by simpa using hne
  obtain ⟨v, hv, hmin, _⟩ := (argminIdx_eq_iff _ hne' k).mp hk
  have hkl : k < t.length := by
    have := (List.getElem?_eq_some_iff.mp hv).1; simpa using this
  refine ⟨hkl, ?_⟩
  have h1 : v = absR (t[k] - d) := by
    rw [List.getElem?_map, List.getElem?_eq_getElem hkl] at hv; simpa using hv.symm
  rw [← h1]
  exact hmin j _ (by rw [List.getElem?_map, List.getElem?_eq_getElem hj]; rfl)

/-! ## 6. "a pseudotrajectory generated from a grid is assigned back to 0,1,2,… exactly" -/

/-- **Round trip.**  Grid: strictly increasing positive radii (`n_t ≥ 2`), pairwise distinct directions, unit quaternions
pairwise different up to sign.  Frame = the reference molecule rotated by grid rotation `b` about its centre of mass and
moved so that its centre of mass is `t_i · o_j`; external data as assumed (`hd`: the norm is `t_i`; `hpa`: axes
`sᵢ R aᵢ`, even flips).  Then the frame is assigned `(t, o, b) = (i, j, b)` and index `(i·n_o + j)·n_b + b`, which is
its row number in the full grid (C09). -/
theorem pt_roundtrip (thr : Rat) (hthr : 0 ≤ thr) (g : Grid) (m : RefMol) (refDir : I3)
    (i j b : Nat) (hi : i < g.t.length) (hj : j < g.o.length) (hb : b < g.b.length)
    (ht : g.t.Pairwise (· < ·)) (hnt : 2 ≤ g.t.length) (hpos : ∀ r ∈ g.t, 0 < r)
    (ho : g.o.Nodup)
    (hbu : ∀ q ∈ g.b, Q4.normSq q = 1)
    (hbne : ∀ (a c : Nat) (ha : a < g.b.length) (hc : c < g.b.length), a ≠ c → g.b[a] ≠ g.b[c] ∧ g.b[a] ≠ Q4.neg g.b[c])
    (hlen : m.masses.length = m.pos.length) (hM : m.masses.sum ≠ 0) (hdetA : M3.det m.pa ≠ 0)
    (href : refDirections thr m = .ok refDir)
    (T : V3) (s : I3) (hs : EvenFlip s) (f : Frame)
    (hfpos : f.pos = m.pos.map (rigid (rotMat g.b[b]) T))
    (hcom : rigid (rotMat g.b[b]) T (centerOfMass m.masses m.pos) = V3.smul g.t[i] g.o[j])
    (hd : f.d = g.t[i])
    (hpa : f.pa = flipRows s (M3.mul m.pa (M3.transpose (rotMat g.b[b])))) :
    assignFrame thr g m refDir false true f
      = .ok ⟨some i, j, b, flip s refDir, some ((i * g.o.length + j) * g.b.length + b)⟩ :=
  Molgri.Assign.pt_roundtrip thr hthr g m refDir i j b hi hj hb ht hnt hpos ho hbu hbne hlen hM hdetA href T s hs f
    hfpos hcom hd hpa

/-! non-vacuity of `sign_fix_recovers_partial` / `assign_eq_membership` / `pt_roundtrip`: a planar three-atom molecule (the one-unknown table is
used), grid 2 radii × 2 directions × 2 rotations, frame = grid point (1, 1, 1) with two flipped axes -/

def exMol : RefMol :=
  { masses := [1, 2, 1], pos := [⟨1, 0, 0⟩, ⟨0, 1, 0⟩, ⟨-1, -2, 0⟩], pa := ⟨⟨1, 0, 0⟩, ⟨0, 1, 0⟩, ⟨0, 0, 1⟩⟩ }
def exGrid : Grid :=
  { t := [2, 3], o := [⟨1, 0, 0⟩, ⟨0, 1, 0⟩], oNorm := [1, 1], b := [⟨0, 0, 0, 1⟩, ⟨1, 0, 0, 0⟩] }
def exFrame : Frame :=
  { pos := exMol.pos.map (rigid (rotMat ⟨1, 0, 0, 0⟩) ⟨0, 3, 0⟩), d := 3, nu := 1,
    pa := flipRows (1, -1, -1) (M3.mul exMol.pa (M3.transpose (rotMat ⟨1, 0, 0, 0⟩))) }

example : refDirections (1 / 2000) exMol = .ok (-1, -1, 1) := by
  have hs : exMol.pos.map (atomSigns (1 / 2000) exMol.pa (centerOfMass exMol.masses exMol.pos))
      = [(1, 0, 0), (0, 1, 0), (-1, -1, 0)] := by
    simp [exMol, centerOfMass, V3.smul, V3.add, atomSigns, V3.sub, V3.dot, sgnRound]
    norm_num
  unfold refDirections
  simp only [hs]
  decide

example : exMol.masses.length = exMol.pos.length ∧ exMol.masses.sum ≠ 0 ∧ M3.det exMol.pa ≠ 0 ∧ EvenFlip (1, -1, -1) ∧
    exGrid.t.Pairwise (· < ·) ∧ exGrid.o.Nodup ∧ (∀ q ∈ exGrid.b, Q4.normSq q = 1) ∧
    rigid (rotMat ⟨1, 0, 0, 0⟩) ⟨0, 3, 0⟩ (centerOfMass exMol.masses exMol.pos) = V3.smul 3 ⟨0, 1, 0⟩ := by
  refine ⟨rfl, by simp [exMol]; norm_num, by simp [exMol, M3.det], by simp [EvenFlip, IsPM], by simp [exGrid]; norm_num,
    by simp [exGrid], by simp [exGrid, Q4.normSq, Q4.dot], ?_⟩
  simp [exMol, centerOfMass, V3.smul, V3.add, rigid, M3.mulVec, V3.dot, rotMat, rotH, M3.smul, Q4.normSq, Q4.dot]

/-- the conclusion of `pt_roundtrip` evaluated on this instance: cell (1,1,1) = index 7 of 8 -/
example : (assignFrame (1 / 2000) exGrid exMol (-1, -1, 1) false true exFrame).toOption.map (·.idx) = some (some 7) := by
  decide +kernel

/-! ## 7. the margin rule of the correspondence check -/

/-- **Stability of the assignment away from cell boundaries**: if the selected score is smaller than every other score
by more than `2ε`, every list of scores within `ε` selects the same index.  (This is why placements within a margin of a
cell boundary are the only ones where float rounding can change the answer.) -/
theorem argmin_stable (xs ys : List Rat) (i : Nat) (v ε : Rat) (hlen : xs.length = ys.length)
    (hi : xs[i]? = some v)
    (hgap : ∀ (j : Nat) x, j ≠ i → xs[j]? = some x → v + 2 * ε < x)
    (hclose : ∀ (j : Nat) x y, xs[j]? = some x → ys[j]? = some y → x - ε ≤ y ∧ y ≤ x + ε) :
    argminIdx ys = i := by
  have hil : i < xs.length := (List.getElem?_eq_some_iff.mp hi).1
  have hne : ys ≠ [] := by intro h; rw [h, List.length_nil] at hlen; omega
  rw [argminIdx_eq_iff ys hne]
  have hw : ys[i]? = some ys[i] := List.getElem?_eq_getElem (by omega)
  have hwi := hclose i v ys[i] hi hw
  have key : ∀ (j : Nat) y, j ≠ i → ys[j]? = some y → ys[i] < y := by
    intro j y hji hy
    have hjl : j < xs.length := by rw [hlen]; exact (List.getElem?_eq_some_iff.mp hy).1
    have hx : xs[j]? = some xs[j] := List.getElem?_eq_getElem hjl
    have h1 := hgap j xs[j] hji hx
    have h2 := hclose j xs[j] y hx hy
    linarith [hwi.2, h2.1]
  refine ⟨ys[i], hw, ?_, ?_⟩
  · intro j y hy
    by_cases hji : j = i
    · subst hji; rw [hw] at hy; simp at hy; exact le_of_eq hy
    · exact le_of_lt (key j y hji hy)
  · intro j y hj hy
    exact key j y (by omega) hy

example : ([5, 1, 4] : List Rat)[1]? = some 1 ∧ (1 : Rat) + 2 * 1 < 4 := by norm_num

end Molgri.C11
