/-
C12 — the MSM transition matrix is the symmetrised, row-normalised lag-τ count matrix.

Property theorems about `Molgri.Msm` (the model of `window`, `noncorr_window`,
`MSM.get_one_tau_transition_matrix`).  Quantifiers: every trajectory `xs : List (Option Nat)`
(`none` = NaN), every cell count `n`, every lag `τ ≥ 1`, both window modes.
-/
import Molgri.Lemmas.Msm
import Mathlib.Algebra.Order.Field.Basic

namespace Molgri.C12
open Molgri.Msm

/-- `c_ij` of the statement: windows `(x_k, x_{k+τ})`, `k = 0, step, 2·step, … < L − τ`, both defined. -/
def cSpec (xs : List (Option Nat)) (τ step i j : Nat) : Nat :=
  ((Finset.range (xs.length - τ)).filter
    (fun k => step ∣ k ∧ xs[k]? = some (some i) ∧ xs[k + τ]? = some (some j))).card

/-- The window generator emits exactly the pairs of the statement, with multiplicity. -/
theorem window_spec (xs : List (Option Nat)) (τ step i j : Nat) (hs : 0 < step) :
    cnt (windows xs τ step) i j = cSpec xs τ step i j := by
  unfold cnt windows cSpec
  rw [List.count_eq_countP, List.countP_filterMap]
  have hnd := nodup_pyRange (n := xs.length - τ) hs
  rw [List.countP_eq_length_filter, ← List.toFinset_card_of_nodup (hnd.filter _)]
  congr 1
  ext k
  simp only [List.mem_toFinset, List.mem_filter, mem_pyRange hs, Finset.mem_filter, Finset.mem_range]
  unfold windowAt
  constructor
  · rintro ⟨⟨h1, h2⟩, h3⟩
    refine ⟨h1, h2, ?_⟩
    revert h3
    cases hx : xs[k]? with
    | none => simp
    | some o =>
      cases o with
      | none => simp
      | some a =>
        cases hy : xs[k + τ]? with
        | none => simp
        | some o2 =>
          cases o2 with
          | none => simp
          | some b => simp
  · rintro ⟨h1, h2, h3, h4⟩
    refine ⟨⟨h1, h2⟩, ?_⟩
    simp [h3, h4]

/-- Symmetrised counts `c_ij + c_ji` produced by the accumulation loop. -/
theorem count_matrix_spec (xs : List (Option Nat)) (τ i j : Nat) (noncorr : Bool) (hτ : 1 ≤ τ) :
    countMat (windows xs τ (stepOf τ noncorr)) i j
      = cSpec xs τ (stepOf τ noncorr) i j + cSpec xs τ (stepOf τ noncorr) j i := by
  have hs : 0 < stepOf τ noncorr := by unfold stepOf; split <;> omega
  rw [countMat_eq, window_spec _ _ _ _ _ hs, window_spec _ _ _ _ _ hs]

/-- The visit weight `w_i = Σ_k (c_ik + c_ki)`. -/
def wSpec (xs : List (Option Nat)) (n τ step i : Nat) : Nat :=
  ∑ k ∈ Finset.range n, (cSpec xs τ step i k + cSpec xs τ step k i)

theorem weight_spec (xs : List (Option Nat)) (n τ i : Nat) (noncorr : Bool) (hτ : 1 ≤ τ) :
    rowSum (countMat (windows xs τ (stepOf τ noncorr))) n i = wSpec xs n τ (stepOf τ noncorr) i := by
  rw [rowSum_eq_sum]; unfold wSpec
  exact Finset.sum_congr rfl (fun k _ => count_matrix_spec xs τ i k noncorr hτ)

/-- **Entry formula.**  `T_ij = (c_ij + c_ji) / Σ_k (c_ik + c_ki)`, and `0` when the denominator vanishes. -/
theorem msm_entry (xs : List (Option Nat)) (n τ i j : Nat) (noncorr : Bool) (hτ : 1 ≤ τ) :
    transition xs n τ noncorr i j =
      if wSpec xs n τ (stepOf τ noncorr) i = 0 then
        ((cSpec xs τ (stepOf τ noncorr) i j + cSpec xs τ (stepOf τ noncorr) j i : Nat) : Rat)
      else ((cSpec xs τ (stepOf τ noncorr) i j + cSpec xs τ (stepOf τ noncorr) j i : Nat) : Rat)
            / (wSpec xs n τ (stepOf τ noncorr) i : Rat) := by
  unfold transition tEntry guardSum
  rw [weight_spec xs n τ i noncorr hτ, count_matrix_spec xs τ i j noncorr hτ]
  split <;> simp

/-- Rows of unvisited cells are zero (for columns inside the matrix). -/
theorem row_zero (xs : List (Option Nat)) (n τ i j : Nat) (noncorr : Bool) (hj : j < n)
    (hw : rowSum (countMat (windows xs τ (stepOf τ noncorr))) n i = 0) :
    transition xs n τ noncorr i j = 0 := by
  unfold transition tEntry
  have h := entry_le_rowSum (countMat (windows xs τ (stepOf τ noncorr))) i hj
  have h0 : countMat (windows xs τ (stepOf τ noncorr)) i j = 0 := by omega
  simp [h0]

/-- Rows of visited cells sum to one. -/
theorem row_sum_one (xs : List (Option Nat)) (n τ i : Nat) (noncorr : Bool)
    (hw : rowSum (countMat (windows xs τ (stepOf τ noncorr))) n i ≠ 0) :
    ∑ j ∈ Finset.range n, transition xs n τ noncorr i j = 1 := by
  unfold transition tEntry guardSum
  rw [if_neg hw, ← Finset.sum_div, rowSum_eq_sum]
  have : (∑ j ∈ Finset.range n, ((countMat (windows xs τ (stepOf τ noncorr)) i j : Nat) : Rat))
      = ((∑ j ∈ Finset.range n, countMat (windows xs τ (stepOf τ noncorr)) i j : Nat) : Rat) := by
    push_cast; rfl
  rw [this]
  rw [rowSum_eq_sum] at hw
  exact div_self (by exact_mod_cast hw)

/-- All entries lie in `[0, 1]`. -/
theorem entry_bounds (xs : List (Option Nat)) (n τ i j : Nat) (noncorr : Bool) (hj : j < n) :
    0 ≤ transition xs n τ noncorr i j ∧ transition xs n τ noncorr i j ≤ 1 := by
  unfold transition tEntry guardSum
  have h := entry_le_rowSum (countMat (windows xs τ (stepOf τ noncorr))) i hj
  set C := countMat (windows xs τ (stepOf τ noncorr)) i j
  set s := rowSum (countMat (windows xs τ (stepOf τ noncorr))) n i
  constructor
  · apply div_nonneg <;> exact_mod_cast Nat.zero_le _
  · split
    · have : C = 0 := by omega
      simp [this]
    · rename_i hs
      have hpos : (0 : Rat) < (s : Rat) := by exact_mod_cast Nat.pos_of_ne_zero hs
      rw [div_le_one hpos]; exact_mod_cast h

/-- **Detailed balance** with respect to the visit weights: `w_i T_ij = w_j T_ji`. -/
theorem detailed_balance (xs : List (Option Nat)) (n τ i j : Nat) (noncorr : Bool) (hi : i < n) (hj : j < n) :
    (rowSum (countMat (windows xs τ (stepOf τ noncorr))) n i : Rat) * transition xs n τ noncorr i j
      = (rowSum (countMat (windows xs τ (stepOf τ noncorr))) n j : Rat) * transition xs n τ noncorr j i := by
  unfold transition tEntry guardSum
  set M := countMat (windows xs τ (stepOf τ noncorr))
  have hsym : M i j = M j i := countMat_symm _ i j
  have h1 := entry_le_rowSum M i hj
  have h2 := entry_le_rowSum M j hi
  by_cases hwi : rowSum M n i = 0
  · have : M i j = 0 := by omega
    have h3 : M j i = 0 := by omega
    simp [hwi, this, h3]
  · by_cases hwj : rowSum M n j = 0
    · have : M j i = 0 := by omega
      have h3 : M i j = 0 := by omega
      simp [hwj, this, h3]
    · rw [if_neg hwi, if_neg hwj, hsym]
      have a : (rowSum M n i : Rat) ≠ 0 := by exact_mod_cast hwi
      have b : (rowSum M n j : Rat) ≠ 0 := by exact_mod_cast hwj
      field_simp

/-- Trajectories not longer than the lag give the zero matrix. -/
theorem short_traj (xs : List (Option Nat)) (n τ i j : Nat) (noncorr : Bool) (h : xs.length ≤ τ) :
    transition xs n τ noncorr i j = 0 := by
  unfold transition tEntry windows pyRange
  have : xs.length - τ = 0 := by omega
  rw [this]
  have h0 : (0 + stepOf τ noncorr - 1) / stepOf τ noncorr = 0 := by
    rcases Nat.eq_zero_or_pos (stepOf τ noncorr) with h | h
    · simp [h]
    · exact Nat.div_eq_of_lt (by omega)
  rw [h0]
  simp [countMat]

/-! ### reversal invariance (sliding windows) -/

theorem cSpec_reverse (xs : List (Option Nat)) (τ i j : Nat) :
    cSpec xs.reverse τ 1 i j = cSpec xs τ 1 j i := by
  unfold cSpec
  simp only [List.length_reverse, one_dvd, true_and]
  set m := xs.length - τ with hm
  apply Finset.card_nbij' (fun k => m - 1 - k) (fun k => m - 1 - k)
  · intro k hk
    simp only [Finset.coe_filter, Finset.mem_range, Set.mem_ofPred_eq] at hk ⊢
    obtain ⟨hk, h1, h2⟩ := hk
    refine ⟨by omega, ?_, ?_⟩
    · rw [List.getElem?_reverse (by omega)] at h2
      rw [← h2]; congr 1; omega
    · rw [List.getElem?_reverse (by omega)] at h1
      rw [← h1]; congr 1; omega
  · intro k hk
    simp only [Finset.coe_filter, Finset.mem_range, Set.mem_ofPred_eq] at hk ⊢
    obtain ⟨hk, h1, h2⟩ := hk
    refine ⟨by omega, ?_, ?_⟩
    · rw [List.getElem?_reverse (by omega)]
      rw [← h2]; congr 1; omega
    · rw [List.getElem?_reverse (by omega)]
      rw [← h1]; congr 1; omega
  · intro k hk
    simp only [Finset.coe_filter, Finset.mem_range, Set.mem_ofPred_eq] at hk
    dsimp only
    omega
  · intro k hk
    simp only [Finset.coe_filter, Finset.mem_range, Set.mem_ofPred_eq] at hk
    dsimp only
    omega

/-- **Reversal invariance**: in sliding mode the matrix of the reversed trajectory is the same matrix. -/
theorem reverse_invariant (xs : List (Option Nat)) (n τ i j : Nat) (hτ : 1 ≤ τ) :
    transition xs.reverse n τ false i j = transition xs n τ false i j := by
  rw [msm_entry _ _ _ _ _ _ hτ, msm_entry _ _ _ _ _ _ hτ]
  have hs : stepOf τ false = 1 := rfl
  simp only [hs, wSpec, cSpec_reverse]
  have hw : (∑ k ∈ Finset.range n, (cSpec xs τ 1 k i + cSpec xs τ 1 i k))
      = ∑ k ∈ Finset.range n, (cSpec xs τ 1 i k + cSpec xs τ 1 k i) :=
    Finset.sum_congr rfl (fun k _ => Nat.add_comm _ _)
  rw [hw, Nat.add_comm (cSpec xs τ 1 j i)]

/-- Why the claim is for sliding windows only: with non-overlapping windows the symmetrised count matrix of
`[0,1,2,0]` at lag 2 changes under reversal (a concrete witness, not a theorem about all inputs). -/
theorem nonoverlap_not_reverse_invariant :
    countMat (windows [some 0, some 1, some 2, some 0].reverse 2 (stepOf 2 true)) 0 1
      ≠ countMat (windows [some 0, some 1, some 2, some 0] 2 (stepOf 2 true)) 0 1 := by
  decide +kernel

/-- Non-vacuity: a concrete trajectory with NaN where the hypotheses of `row_sum_one` hold. -/
example : rowSum (countMat (windows [some 0, none, some 1, some 0, some 1] 1 (stepOf 1 false))) 2 0 ≠ 0 := by
  decide +kernel

/-! ### sparse output (large cell counts)

The driver's sparse answer lists the entries at the positions touched by a counted window.  Nothing is lost:
every non-zero entry of the transition matrix is listed with its value, and every listed value is the entry. -/

theorem countMat_eq_zero_of_not_mem (ws : List (Nat × Nat)) (i j : Nat) (h : (i, j) ∉ support ws) :
    countMat ws i j = 0 := by
  rw [countMat_eq]
  have h1 : (i, j) ∉ ws := fun hm => h (by
    unfold support; exact List.mem_flatMap.mpr ⟨(i, j), hm, by simp⟩)
  have h2 : (j, i) ∉ ws := fun hm => h (by
    unfold support; exact List.mem_flatMap.mpr ⟨(j, i), hm, by simp⟩)
  simp [cnt, List.count_eq_zero_of_not_mem h1, List.count_eq_zero_of_not_mem h2]

/-- **Sparse output is complete**: a non-zero entry `(i, j)` inside the `n × n` matrix is listed, with its value. -/
theorem sparse_complete (xs : List (Option Nat)) (n τ i j : Nat) (noncorr : Bool) (hi : i < n) (hj : j < n)
    (hne : transition xs n τ noncorr i j ≠ 0) :
    (i, j, transition xs n τ noncorr i j) ∈ transitionSparse xs n τ noncorr := by
  unfold transitionSparse
  simp only [List.mem_map, List.mem_filter]
  refine ⟨(i, j), ⟨?_, by simp [hi, hj]⟩, rfl⟩
  by_contra hmem
  apply hne
  unfold transition tEntry
  rw [countMat_eq_zero_of_not_mem _ _ _ hmem]
  simp

/-- **Sparse output is sound**: every listed triple is an entry of the transition matrix inside the `n × n` block. -/
theorem sparse_sound (xs : List (Option Nat)) (n τ : Nat) (noncorr : Bool) (e : Nat × Nat × Rat)
    (he : e ∈ transitionSparse xs n τ noncorr) :
    e.1 < n ∧ e.2.1 < n ∧ e.2.2 = transition xs n τ noncorr e.1 e.2.1 := by
  unfold transitionSparse at he
  simp only [List.mem_map, List.mem_filter, Bool.and_eq_true, decide_eq_true_eq] at he
  obtain ⟨p, ⟨_, hp1, hp2⟩, rfl⟩ := he
  exact ⟨hp1, hp2, rfl⟩

/-- The dense and the sparse driver outputs describe the same matrix (dense entry = model entry). -/
theorem dense_entry (xs : List (Option Nat)) (n τ i j : Nat) (noncorr : Bool) (hi : i < n) (hj : j < n) :
    ((transitionDense xs n τ noncorr).getD i []).getD j 0 = transition xs n τ noncorr i j := by
  unfold transitionDense transition
  simp [List.getD_eq_getElem?_getD, hi, hj]

end Molgri.C12
