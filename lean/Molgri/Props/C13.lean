/-
C13 — merging and deleting cells is exact lumping with correct index bookkeeping.

Property theorems about `Molgri.Merge` (model of `merge_sublists`, `merge_matrix_cells`, `delete_rate_cells`,
`sqra_normalize`, `SQRA.cut_and_merge`).  Quantifiers: every scalar type `α` that is an additive commutative group
(the code only adds, subtracts and uses `0`; `ℤ` for the driver and the `decide` examples, any field for the rate
matrices of C01 — `Molgri/Bridge/MergeRate.lean`), every square matrix over `α`, every sequence of merge / delete
operations (any length), every join list (repeats, overlaps, absent cells).
-/
import Molgri.Lemmas.Merge
import Molgri.Lemmas.MergeGood
import Molgri.Lemmas.MergeUnique

namespace Molgri.C13
open Molgri.Merge

/-- the index list a state carries (`None` stands for the identity list `[[0],[1],…]`) -/
def idxOf {α : Type} (s : State α) : Groups := s.idx.getD (singletons s.A.length)

/-- every row of the matrix sums to zero -/
def ZeroRows {α : Type} [Add α] [Zero α] (A : Mat α) : Prop := ∀ r, (A.getD r []).sum = 0

/-- the matrix is symmetric -/
def Symm {α : Type} [Zero α] (A : Mat α) : Prop := ∀ r c, entry A r c = entry A c r

-- the scalars of all theorems below: any additive commutative group
variable {α : Type} [AddCommGroup α]

/--
The invariant of the property, for a fixed original matrix `M`:
* one group per row (`len`), the matrix stays square,
* every off-diagonal entry `(a, b)` is the sum of the original entries over `i ∈ group a`, `j ∈ group b`,
* the groups are pairwise disjoint.
-/
structure Inv (M : Nat → Nat → α) (s : State α) : Prop where
  len : (idxOf s).length = s.A.length
  square : Square s.A
  off : ∀ r c, r ≠ c → entry s.A r c = blockSum M ((idxOf s).getD r []) ((idxOf s).getD c [])
  disj : (idxOf s).Pairwise Disj

theorem getD_singletons (n r : Nat) : (singletons n).getD r [] = if r < n then [r] else [] := by
  unfold singletons
  split
  · rename_i h
    rw [List.getD_eq_getElem _ _ (by simpa using h)]; simp
  · rename_i h
    exact List.getD_eq_default _ _ (by simp; omega)

theorem singletons_disj (n : Nat) : (singletons n).Pairwise Disj := by
  unfold singletons
  rw [List.pairwise_map]
  refine List.pairwise_lt_range.imp ?_
  intro a b hab x hxa hxb
  simp at hxa hxb; omega

/-- **Initial state**: any square matrix with the identity index list satisfies the invariant w.r.t. itself. -/
theorem inv_init (A : Mat α) (hsq : Square A) : Inv (entry A) ⟨A, none⟩ := by
  refine ⟨by simp [idxOf], hsq, ?_, by simpa [idxOf] using singletons_disj A.length⟩
  intro r c _
  simp only [idxOf, Option.getD_none, getD_singletons]
  by_cases hr : r < A.length
  · by_cases hc : c < A.length
    · simp [hr, hc, blockSum]
    · simp only [hr, hc, if_true, if_false, blockSum_nil_right]
      apply entry_of_col_ge
      intro row hrow; rw [hsq row hrow]; omega
  · simp only [hr, if_false, blockSum_nil_left]
    exact entry_of_row_ge (by omega)

/-- the row groups used by a successful merge are pairwise disjoint, strictly ascending, non-empty and inside the matrix -/
theorem merge_rowGroups {A : Mat α} {J : Groups} {idx : Option Groups} {A' : Mat α} {il' : Groups}
    (h : mergeCells A J idx = .ok (A', il')) (hlen : (idx.getD (singletons A.length)).length = A.length) :
    ∃ G, Comps G ∧ (∀ g ∈ G, ∀ x ∈ g, x < A.length) ∧ A' = mergeMat A G ∧
      il' = mergeIdx (idx.getD (singletons A.length)) G := by
  unfold mergeCells at h
  cases idx with
  | none =>
    simp only at h
    split at h
    · cases h
    · rename_i hne
      split at h
      · cases h
      · rename_i hrange
        cases h
        refine ⟨closure J, comps_closure J ?_, ?_, rfl, rfl⟩
        · intro L hL h0
          apply hne
          rw [List.any_eq_true]; exact ⟨L, hL, by simp [h0]⟩
        · intro g hg x hx
          have hx' : x ∈ J.flatten := (mem_flatten_closure J x).mp (List.mem_flatten.mpr ⟨g, hg, hx⟩)
          obtain ⟨L, hL, hxL⟩ := List.mem_flatten.mp hx'
          by_contra hge
          apply hrange
          rw [List.any_eq_true]
          refine ⟨L, hL, ?_⟩
          rw [List.any_eq_true]
          exact ⟨x, hxL, by simpa using Nat.le_of_not_lt hge⟩
  | some il =>
    simp only at h
    split at h
    · cases h
    · cases h
      refine ⟨_, comps_closure _ ?_, ?_, rfl, rfl⟩
      · intro L hL
        have := (List.mem_filter.mp hL).2
        intro h0; simp [h0] at this
      · intro g hg x hx
        have hx' := (mem_flatten_closure _ x).mp (List.mem_flatten.mpr ⟨g, hg, hx⟩)
        obtain ⟨L, hL, hxL⟩ := List.mem_flatten.mp hx'
        obtain ⟨L0, _, rfl⟩ := List.mem_map.mp (List.mem_filter.mp hL).1
        have := (mem_rowsOf.mp hxL).1
        simpa [hlen] using (by simpa using hlen ▸ this : x < A.length)

/-- **One step preserves the invariant** (merge or delete, any arguments). -/
theorem inv_step (M : Nat → Nat → α) {s s' : State α} (op : Op) (hinv : Inv M s) (h : step s op = .ok s') :
    Inv M s' := by
  cases op with
  | merge J =>
    unfold step at h
    simp only [bind, Except.bind] at h
    split at h
    · cases h
    · rename_i res hres
      obtain ⟨A', il'⟩ := res
      cases h
      obtain ⟨G, hG, hn, rfl, rfl⟩ := merge_rowGroups hres hinv.len
      have hl : (idxOf s).length = s.A.length := hinv.len
      refine ⟨?_, square_mergeMat _ _, ?_, ?_⟩
      · simp only [idxOf, Option.getD_some, length_mergeIdx, length_mergeMat]
        rw [show (s.idx.getD (singletons s.A.length)).length = s.A.length from hl]
      · intro r c hrc
        exact mergeMat_blockSum_off M s.A (idxOf s) G hl hG hinv.off hrc
      · exact mergeIdx_disj (idxOf s) G hG hinv.disj
  | delete R =>
    unfold step at h
    simp only [pure, Except.pure] at h
    cases h
    have hl : (idxOf s).length = s.A.length := hinv.len
    refine ⟨?_, ?_, ?_, ?_⟩
    · simp [idxOf, deleteCells, normalize, subMat]
    · intro row hrow
      simp only [deleteCells] at hrow ⊢
      rw [length_normalize]
      unfold normalize at hrow
      simp only [List.mem_map, List.mem_range] at hrow
      obtain ⟨i, hi, rfl⟩ := hrow
      simp only [List.length_map, List.length_range]
      have : (subMat s.A _).getD i [] = (subMat s.A _)[i] := List.getD_eq_getElem _ _ hi
      rw [this]
      exact square_subMat _ _ _ (List.getElem_mem hi)
    · intro r c hrc
      simp only [idxOf, deleteCells, Option.getD_some]
      exact select_blockSum_off M s.A (idxOf s) _ (nodup_toKeep _ _) hinv.off hrc
    · simp only [idxOf, deleteCells, Option.getD_some]
      exact select_disj (idxOf s) _ _ hl.symm hinv.disj

/-- **Invariant over all operation sequences** (any length, any arguments), by induction over the history. -/
theorem inv_run (M : Nat → Nat → α) (ops : List Op) {s s' : State α} (hinv : Inv M s) (h : run s ops = .ok s') :
    Inv M s' := by
  induction ops generalizing s with
  | nil => simp only [run, pure, Except.pure] at h; cases h; exact hinv
  | cons op ops ih =>
    simp only [run, bind, Except.bind] at h
    split at h
    · cases h
    · rename_i s1 hs1
      exact ih (inv_step M op hinv hs1) h

/-- **Exact lumping for every history** starting from a square matrix `A₀` with no index list: the index list has
one group per row, groups are pairwise disjoint and each off-diagonal entry is the block sum of `A₀`. -/
theorem lumping_all_histories (A₀ : Mat α) (hsq : Square A₀) (ops : List Op) {s' : State α}
    (h : run ⟨A₀, none⟩ ops = .ok s') : Inv (entry A₀) s' :=
  inv_run _ ops (inv_init A₀ hsq) h

/-! ### row sums -/

theorem zeroRows_step {s s' : State α} (op : Op) (hl : (idxOf s).length = s.A.length) (hsq : Square s.A)
    (hz : ZeroRows s.A) (h : step s op = .ok s') : ZeroRows s'.A := by
  cases op with
  | merge J =>
    unfold step at h
    simp only [bind, Except.bind] at h
    split at h
    · cases h
    · rename_i res hres
      obtain ⟨A', il'⟩ := res
      cases h
      obtain ⟨G, hG, hn, rfl, rfl⟩ := merge_rowGroups hres hl
      exact rowSum_mergeMat s.A G hG hn hsq hz
  | delete R =>
    unfold step at h
    simp only [pure, Except.pure] at h
    cases h
    intro r
    exact rowSum_normalize _ (square_subMat _ _) r

/-- **A deletion re-sets the diagonal so that rows sum to zero**, whatever the matrix was. -/
theorem delete_zeroRows (s : State α) (R : List Nat) {s' : State α} (h : step s (.delete R) = .ok s') :
    ZeroRows s'.A := by
  unfold step at h
  simp only [pure, Except.pure] at h
  cases h
  intro r
  exact rowSum_normalize _ (square_subMat _ _) r

/-- **Rows of a zero-row-sum input keep summing to zero** along every history. -/
theorem zeroRows_run (M : Nat → Nat → α) (ops : List Op) {s s' : State α} (hinv : Inv M s) (hz : ZeroRows s.A)
    (h : run s ops = .ok s') : ZeroRows s'.A := by
  induction ops generalizing s with
  | nil => simp only [run, pure, Except.pure] at h; cases h; exact hz
  | cons op ops ih =>
    simp only [run, bind, Except.bind] at h
    split at h
    · cases h
    · rename_i s1 hs1
      exact ih (inv_step M op hinv hs1) (zeroRows_step op hinv.len hinv.square hz hs1) h

/-! ### symmetry -/

theorem symm_step {s s' : State α} (op : Op) (hl : (idxOf s).length = s.A.length) (hs : Symm s.A)
    (h : step s op = .ok s') : Symm s'.A := by
  cases op with
  | merge J =>
    unfold step at h
    simp only [bind, Except.bind] at h
    split at h
    · cases h
    · rename_i res hres
      obtain ⟨A', il'⟩ := res
      cases h
      obtain ⟨G, _, _, rfl, rfl⟩ := merge_rowGroups hres hl
      exact entry_mergeMat_symm s.A G hs
  | delete R =>
    unfold step at h
    simp only [pure, Except.pure] at h
    cases h
    exact entry_select_symm s.A _ hs

/-- **Symmetric inputs stay symmetric** along every history. -/
theorem symm_run (M : Nat → Nat → α) (ops : List Op) {s s' : State α} (hinv : Inv M s) (hs : Symm s.A)
    (h : run s ops = .ok s') : Symm s'.A := by
  induction ops generalizing s with
  | nil => simp only [run, pure, Except.pure] at h; cases h; exact hs
  | cons op ops ih =>
    simp only [run, bind, Except.bind] at h
    split at h
    · cases h
    · rename_i s1 hs1
      exact ih (inv_step M op hinv hs1) (symm_step op hinv.len hs hs1) h

/-! ### what the operations do to the groups -/

/-- **A deletion removes exactly the groups containing a listed cell** (cells not present are ignored),
keeping the other groups in their order. -/
theorem delete_groups (A : Mat α) (il : Groups) (R : List Nat) (hl : il.length = A.length) :
    (deleteCells A R (some il)).2 = il.filter (fun g => !R.any (fun c => g.contains c)) := by
  simp only [deleteCells, Option.getD_some]
  unfold toKeep
  rw [← hl]
  apply filter_range_map
  intro k hk
  congr 1
  rw [Bool.eq_iff_iff]
  simp only [List.contains_iff_mem, List.any_eq_true]
  rw [mem_rowsOf]
  constructor
  · rintro ⟨_, c, hc, hm⟩
    rw [List.getD_eq_getElem _ _ hk] at hm
    exact ⟨c, hc, by simpa using hm⟩
  · rintro ⟨c, hc, hm⟩
    refine ⟨hk, c, hc, ?_⟩
    rw [List.getD_eq_getElem _ _ hk]; simpa using hm

/-- **A merge loses and invents no cell**: the cells of the new index list are those of the old one. -/
theorem merge_cells_preserved {A : Mat α} {J : Groups} {idx : Option Groups} {A' : Mat α} {il' : Groups}
    (h : mergeCells A J idx = .ok (A', il')) (hlen : (idx.getD (singletons A.length)).length = A.length) (x : Nat) :
    x ∈ il'.flatten ↔ x ∈ (idx.getD (singletons A.length)).flatten := by
  obtain ⟨G, hG, hn, rfl, rfl⟩ := merge_rowGroups h hlen
  set il := idx.getD (singletons A.length)
  unfold mergeIdx
  simp only [List.mem_flatten, List.mem_map]
  constructor
  · rintro ⟨g, ⟨a, _, rfl⟩, hx⟩
    rw [mem_sortAsc, List.mem_flatMap] at hx
    obtain ⟨r, _, hxr⟩ := hx
    have hr : r < il.length := by
      by_contra hlt
      rw [List.getD_eq_default _ _ (Nat.le_of_not_lt hlt)] at hxr; simp at hxr
    rw [List.getD_eq_getElem _ _ hr] at hxr
    exact ⟨il[r], List.getElem_mem hr, hxr⟩
  · rintro ⟨g, hg, hx⟩
    obtain ⟨r, hr, rfl⟩ := List.getElem_of_mem hg
    have hr' : r < A.length := by rw [← hlen]; exact hr
    have hmem := (mem_flatMap_grpOf hG hn r).mpr hr'
    obtain ⟨a, ha, hra⟩ := List.mem_flatMap.mp hmem
    refine ⟨_, ⟨a, by rw [hlen]; exact ha, rfl⟩, ?_⟩
    rw [mem_sortAsc, List.mem_flatMap]
    exact ⟨r, hra, by rw [List.getD_eq_getElem _ _ hr]; exact hx⟩

/-- **Groups of the new index list are sorted**, as the code's final `.sort()` promises. -/
theorem merge_groups_sorted (il G : Groups) : ∀ g ∈ mergeIdx il G, g.Pairwise (· ≤ ·) := by
  intro g hg
  unfold mergeIdx at hg
  obtain ⟨a, _, rfl⟩ := List.mem_map.mp hg
  exact sorted_sortAsc _

/-! ### the index list is always a list of disjoint sorted groups ordered by smallest member -/

theorem good_step {s s' : State α} (op : Op) (hl : (idxOf s).length = s.A.length) (hg : Good (idxOf s))
    (h : step s op = .ok s') : Good (idxOf s') := by
  cases op with
  | merge J =>
    unfold step at h
    simp only [bind, Except.bind] at h
    split at h
    · cases h
    · rename_i res hres
      obtain ⟨A', il'⟩ := res
      cases h
      obtain ⟨G, hG, hn, rfl, rfl⟩ := merge_rowGroups hres hl
      exact good_mergeIdx (idxOf s) G hg hG (fun g hgG x hx => by rw [hl]; exact hn g hgG x hx)
  | delete R =>
    unfold step at h
    simp only [pure, Except.pure] at h
    cases h
    simp only [idxOf, deleteCells, Option.getD_some]
    have := good_select (idxOf s) (match s.idx with | none => R | some il => rowsOf il R) hg
    rw [hl] at this
    exact this

/-- **For every operation sequence the index list consists of non-empty, strictly ascending, pairwise disjoint
groups ordered by their smallest member.** -/
theorem good_run (M : Nat → Nat → α) (ops : List Op) {s s' : State α} (hinv : Inv M s) (hg : Good (idxOf s))
    (h : run s ops = .ok s') : Good (idxOf s') := by
  induction ops generalizing s with
  | nil => simp only [run, pure, Except.pure] at h; cases h; exact hg
  | cons op ops ih =>
    simp only [run, bind, Except.bind] at h
    split at h
    · cases h
    · rename_i s1 hs1
      exact ih (inv_step M op hinv hs1) (good_step op hinv.len hg hs1) h

/-- … in particular for every history that starts from a square matrix with no index list. -/
theorem good_all_histories (A₀ : Mat α) (hsq : Square A₀) (ops : List Op) {s' : State α}
    (h : run ⟨A₀, none⟩ ops = .ok s') : Good (idxOf s') :=
  good_run _ ops (inv_init A₀ hsq) (by simpa [idxOf] using good_singletons A₀.length) h

/-! ### what a merge does to the groups; order, redundancy, one-shot versus step-wise -/

/-- **A merge unites exactly the groups containing the listed cells** (transitively; cells no longer present are
ignored): afterwards `c` and `d` share a group iff `c` is present and `c ~ d` in the equivalence generated by
"same group before" and "both present and named in one join list". -/
theorem merge_groups_spec {A : Mat α} {J : Groups} {idx : Option Groups} {A' : Mat α} {il' : Groups}
    (h : mergeCells A J idx = .ok (A', il')) (hlen : (idx.getD (singletons A.length)).length = A.length)
    (hgood : Good (idx.getD (singletons A.length))) (c d : Nat) :
    SameGroup il' c d ↔
      (Present (idx.getD (singletons A.length)) c ∧ Joined (idx.getD (singletons A.length)) J c d) :=
  mergeCells_spec h hlen hgood c d

theorem good_of_mergeCells {A : Mat α} {J : Groups} {idx : Option Groups} {A' : Mat α} {il' : Groups}
    (h : mergeCells A J idx = .ok (A', il')) (hlen : (idx.getD (singletons A.length)).length = A.length)
    (hgood : Good (idx.getD (singletons A.length))) : Good il' := by
  obtain ⟨G, hG, hn, rfl, rfl⟩ := merge_rowGroups h hlen
  exact good_mergeIdx _ G hgood hG (fun g hg x hx => by rw [hlen]; exact hn g hg x hx)

/-- **The result depends only on the equivalence the join lists generate**: any two families of join lists that
generate the same relation give the same index list. -/
theorem merge_congr {A : Mat α} {J J' : Groups} {idx : Option Groups} {A₁ A₂ : Mat α} {il₁ il₂ : Groups}
    (h₁ : mergeCells A J idx = .ok (A₁, il₁)) (h₂ : mergeCells A J' idx = .ok (A₂, il₂))
    (hlen : (idx.getD (singletons A.length)).length = A.length) (hgood : Good (idx.getD (singletons A.length)))
    (hJ : ∀ c d, Joined (idx.getD (singletons A.length)) J c d ↔ Joined (idx.getD (singletons A.length)) J' c d) :
    il₁ = il₂ := by
  apply good_ext (good_of_mergeCells h₁ hlen hgood) (good_of_mergeCells h₂ hlen hgood)
  intro c d
  rw [mergeCells_spec h₁ hlen hgood, mergeCells_spec h₂ hlen hgood, hJ]

theorem eqvGen_of_le {α : Type} {r p : α → α → Prop} (h : ∀ a b, r a b → Relation.EqvGen p a b) {a b : α}
    (hab : Relation.EqvGen r a b) : Relation.EqvGen p a b := by
  induction hab with
  | rel a b hr => exact h a b hr
  | refl a => exact Relation.EqvGen.refl a
  | symm a b _ ih => exact Relation.EqvGen.symm _ _ ih
  | trans a b c _ _ ih1 ih2 => exact Relation.EqvGen.trans _ _ _ ih1 ih2

theorem joined_mono {il J J' : Groups} (h : ∀ L ∈ J, ∃ L' ∈ J', ∀ x ∈ L, x ∈ L') {c d : Nat}
    (hj : Joined il J c d) : Joined il J' c d := by
  refine eqvGen_of_le ?_ hj
  rintro a b (hs | ⟨hpa, hpb, L, hL, haL, hbL⟩)
  · exact Relation.EqvGen.rel _ _ (Or.inl hs)
  · obtain ⟨L', hL', hsub⟩ := h L hL
    exact Relation.EqvGen.rel _ _ (Or.inr ⟨hpa, hpb, L', hL', hsub a haL, hsub b hbL⟩)

/-- **Order and redundancy of the join lists do not matter**: permuting the lists, permuting or repeating members,
repeating or splitting off sub-lists that are contained in other lists — if every list of one family is contained
in a list of the other and vice versa, the index lists agree. -/
theorem merge_order_redundancy {A : Mat α} {J J' : Groups} {idx : Option Groups} {A₁ A₂ : Mat α} {il₁ il₂ : Groups}
    (h₁ : mergeCells A J idx = .ok (A₁, il₁)) (h₂ : mergeCells A J' idx = .ok (A₂, il₂))
    (hlen : (idx.getD (singletons A.length)).length = A.length) (hgood : Good (idx.getD (singletons A.length)))
    (hsub : ∀ L ∈ J, ∃ L' ∈ J', ∀ x ∈ L, x ∈ L') (hsub' : ∀ L' ∈ J', ∃ L ∈ J, ∀ x ∈ L', x ∈ L) :
    il₁ = il₂ :=
  merge_congr h₁ h₂ hlen hgood (fun _ _ => ⟨joined_mono hsub, joined_mono hsub'⟩)

/-- **One-shot merging equals step-wise merging**: merging `J₁` and then `J₂` (threading the index list) gives the
same index list as merging `J₁ ++ J₂` at once. -/
theorem merge_stepwise_eq_oneshot {A : Mat α} {J₁ J₂ : Groups} {idx : Option Groups} {A₁ A₂ A₃ : Mat α}
    {il₁ il₂ il₃ : Groups}
    (h₁ : mergeCells A J₁ idx = .ok (A₁, il₁)) (h₂ : mergeCells A₁ J₂ (some il₁) = .ok (A₂, il₂))
    (h₃ : mergeCells A (J₁ ++ J₂) idx = .ok (A₃, il₃))
    (hlen : (idx.getD (singletons A.length)).length = A.length) (hgood : Good (idx.getD (singletons A.length))) :
    il₂ = il₃ := by
  set il := idx.getD (singletons A.length) with hil
  have hlen₁ : il₁.length = A₁.length := mergeCells_dim h₁
  have hgood₁ : Good il₁ := good_of_mergeCells h₁ hlen hgood
  have spec₁ := mergeCells_spec h₁ hlen hgood
  have spec₂ := mergeCells_spec h₂ (by simpa using hlen₁) (by simpa using hgood₁)
  have spec₃ := mergeCells_spec h₃ hlen hgood
  simp only [Option.getD_some] at spec₂
  have hgood₂ : Good il₂ := good_of_mergeCells h₂ (by simpa using hlen₁) (by simpa using hgood₁)
  have hgood₃ : Good il₃ := good_of_mergeCells h₃ hlen hgood
  have pres : ∀ c, Present il₁ c ↔ Present il c := by
    intro c
    constructor
    · rintro ⟨g, hg, hc⟩
      exact ((spec₁ c c).mp ⟨g, hg, hc, hc⟩).1
    · intro hp
      obtain ⟨g, hg, hc, _⟩ := (spec₁ c c).mpr ⟨hp, Relation.EqvGen.refl c⟩
      exact ⟨g, hg, hc⟩
  have same_of_present : ∀ {a b}, SameGroup il a b → SameGroup il₁ a b := by
    intro a b hs
    have hpa : Present il a := by obtain ⟨g, hg, ha, _⟩ := hs; exact ⟨g, hg, ha⟩
    exact (spec₁ a b).mpr ⟨hpa, Relation.EqvGen.rel _ _ (Or.inl hs)⟩
  apply good_ext hgood₂ hgood₃
  intro c d
  rw [spec₂, spec₃, pres]
  constructor
  · rintro ⟨hp, hj⟩
    refine ⟨hp, eqvGen_of_le ?_ hj⟩
    rintro a b (hs | ⟨hpa, hpb, L, hL, haL, hbL⟩)
    · exact joined_mono (fun L hL => ⟨L, List.mem_append_left _ hL, fun _ h => h⟩) ((spec₁ a b).mp hs).2
    · exact Relation.EqvGen.rel _ _ (Or.inr ⟨(pres a).mp hpa, (pres b).mp hpb, L, List.mem_append_right _ hL, haL, hbL⟩)
  · rintro ⟨hp, hj⟩
    refine ⟨hp, eqvGen_of_le ?_ hj⟩
    rintro a b (hs | ⟨hpa, hpb, L, hL, haL, hbL⟩)
    · exact Relation.EqvGen.rel _ _ (Or.inl (same_of_present hs))
    · rcases List.mem_append.mp hL with hL₁ | hL₂
      · exact Relation.EqvGen.rel _ _ (Or.inl ((spec₁ a b).mpr
          ⟨hpa, Relation.EqvGen.rel _ _ (Or.inr ⟨hpa, hpb, L, hL₁, haL, hbL⟩)⟩))
      · exact Relation.EqvGen.rel _ _ (Or.inr ⟨(pres a).mpr hpa, (pres b).mpr hpb, L, hL₂, haL, hbL⟩)

/-- **The matrix is determined by the index list**: two states that lump the same original matrix and carry the
same index list have the same off-diagonal entries (hence equal index lists from `merge_congr` /
`merge_stepwise_eq_oneshot` give equal matrices off the diagonal; with `zeroRows_run` or `lumping_merges` the
diagonal follows). -/
theorem matrix_determined_off (M : Nat → Nat → α) {s₁ s₂ : State α} (h₁ : Inv M s₁) (h₂ : Inv M s₂)
    (hidx : idxOf s₁ = idxOf s₂) {r c : Nat} (hrc : r ≠ c) : entry s₁.A r c = entry s₂.A r c := by
  rw [h₁.off r c hrc, h₂.off r c hrc, hidx]

/-! ### merge-only histories: every entry (diagonal included) is a block sum -/

/-- with no deletion in the history every entry, diagonal included, is the block sum -/
structure InvAll (M : Nat → Nat → α) (s : State α) : Prop where
  len : (idxOf s).length = s.A.length
  all : ∀ r c, entry s.A r c = blockSum M ((idxOf s).getD r []) ((idxOf s).getD c [])

theorem invAll_init (A : Mat α) (hsq : Square A) : InvAll (entry A) ⟨A, none⟩ := by
  refine ⟨by simp [idxOf], ?_⟩
  intro r c
  simp only [idxOf, Option.getD_none, getD_singletons]
  by_cases hr : r < A.length
  · by_cases hc : c < A.length
    · simp [hr, hc, blockSum]
    · simp only [hr, hc, if_true, if_false, blockSum_nil_right]
      apply entry_of_col_ge
      intro row hrow; rw [hsq row hrow]; omega
  · simp only [hr, if_false, blockSum_nil_left]
    exact entry_of_row_ge (by omega)

theorem invAll_merge (M : Nat → Nat → α) {s s' : State α} (J : Groups) (hinv : InvAll M s)
    (h : step s (.merge J) = .ok s') : InvAll M s' := by
  unfold step at h
  simp only [bind, Except.bind] at h
  split at h
  · cases h
  · rename_i res hres
    obtain ⟨A', il'⟩ := res
    cases h
    obtain ⟨G, hG, hn, rfl, rfl⟩ := merge_rowGroups hres hinv.len
    have hl : (idxOf s).length = s.A.length := hinv.len
    refine ⟨?_, ?_⟩
    · simp only [idxOf, Option.getD_some, length_mergeIdx, length_mergeMat]
      rw [show (s.idx.getD (singletons s.A.length)).length = s.A.length from hl]
    · intro r c
      by_cases hr : r < (mergeMat s.A G).length
      · by_cases hc : c < (mergeMat s.A G).length
        · exact mergeMat_blockSum M s.A (idxOf s) G hl hinv.all hr hc
        · have h1 : (mergeIdx (idxOf s) G).getD c [] = [] :=
            List.getD_eq_default _ _ (by rw [length_mergeIdx, hl]; rw [length_mergeMat] at hc; omega)
          show entry (mergeMat s.A G) r c = blockSum M ((mergeIdx (idxOf s) G).getD r []) ((mergeIdx (idxOf s) G).getD c [])
          rw [h1, blockSum_nil_right]
          apply entry_of_col_ge
          intro row hrow
          rw [square_mergeMat _ _ row hrow]; omega
      · have h1 : (mergeIdx (idxOf s) G).getD r [] = [] :=
          List.getD_eq_default _ _ (by rw [length_mergeIdx, hl]; rw [length_mergeMat] at hr; omega)
        show entry (mergeMat s.A G) r c = blockSum M ((mergeIdx (idxOf s) G).getD r []) ((mergeIdx (idxOf s) G).getD c [])
        rw [h1, blockSum_nil_left]
        exact entry_of_row_ge (by omega)

theorem invAll_run_merges (M : Nat → Nat → α) (Js : List Groups) {s s' : State α} (hs : InvAll M s)
    (h : run s (Js.map Op.merge) = .ok s') : InvAll M s' := by
  induction Js generalizing s with
  | nil => simp only [List.map_nil, run, pure, Except.pure] at h; cases h; exact hs
  | cons J Js ih =>
    simp only [List.map_cons, run, bind, Except.bind] at h
    split at h
    · cases h
    · rename_i s1 hs1
      exact ih (invAll_merge _ J hs hs1) h

/-- **Merge-only histories**: every entry including the diagonal is the block sum of the original matrix. -/
theorem lumping_merges (A₀ : Mat α) (hsq : Square A₀) (Js : List Groups) {s' : State α}
    (h : run ⟨A₀, none⟩ (Js.map Op.merge) = .ok s') : InvAll (entry A₀) s' :=
  invAll_run_merges _ Js (invAll_init A₀ hsq) h

/-! ### the combined step -/

/-- **`cut_and_merge` returns either the unchanged matrix with no index list, or a matrix with an index list
that has exactly one group per row** — for all four combinations of limits given / absent. -/
theorem cut_and_merge_table (Q : Mat α) (toJoin : Option Groups) (tooHigh : Option (List Nat)) {A : Mat α} {il : Option Groups}
    (h : cutAndMerge Q toJoin tooHigh = .ok (A, il)) :
    (toJoin = none ∧ tooHigh = none ∧ A = Q ∧ il = none) ∨ ∃ g, il = some g ∧ g.length = A.length := by
  unfold cutAndMerge at h
  cases toJoin with
  | none =>
    cases tooHigh with
    | none => simp only [bind, Except.bind, pure, Except.pure] at h; cases h; exact Or.inl ⟨rfl, rfl, rfl, rfl⟩
    | some R =>
      simp only [bind, Except.bind, pure, Except.pure] at h; cases h
      exact Or.inr ⟨_, rfl, deleteCells_dim _ _ _⟩
  | some J =>
    simp only [bind, Except.bind, pure, Except.pure] at h
    split at h
    · cases h
    · rename_i res hres
      obtain ⟨A1, il1⟩ := res
      cases tooHigh with
      | none => simp only at h; cases h; exact Or.inr ⟨_, rfl, mergeCells_dim hres⟩
      | some R => simp only at h; cases h; exact Or.inr ⟨_, rfl, deleteCells_dim _ _ _⟩

/-- the no-limit case really returns the input -/
theorem cut_and_merge_none (Q : Mat α) : cutAndMerge Q none none = .ok (Q, none) := rfl

/-! ### the instance the driver runs

The driver (`Molgri/Drv/C13.lean`, no Mathlib) evaluates the model at `α := Int` with core's `Int.add`, `Int.sub`, `0`;
the theorems above, read at `α := Int`, speak about the operations of Mathlib's `AddCommGroup ℤ`.  They are the same
functions (by unfolding the instances): -/

/-- a history run with the operations of an additive commutative group, as the theorems see it -/
def runGroup {α : Type} [AddCommGroup α] (s : State α) (ops : List Op) : Except Err (State α) := run s ops

example (s : State Int) (ops : List Op) :
    runGroup s ops = @run Int Int.instAdd Int.instSub ⟨(0 : Int)⟩ s ops := rfl

/-! ### non-vacuity: a concrete history with an overlapping and an absent join, then a deletion, then a merge -/

def exampleA : Mat Int := [[-3, 1, 2, 0], [4, -9, 5, 0], [6, 7, -14, 1], [0, 2, 0, -2]]

example : Square exampleA := by unfold Square exampleA; decide

example : ∃ s', run ⟨exampleA, none⟩ [.merge [[0, 2], [2, 0]], .delete [1], .merge [[1, 3], [3, 0]]] = .ok s'
    ∧ s'.idx = some [[0, 2, 3]] := by
  refine ⟨_, rfl, ?_⟩
  decide +kernel

end Molgri.C13
