/-
C14 — saved grid geometry gives a rate matrix stationary at Boltzmann × volume.

Property theorems about `Molgri.Pipeline` (the model of `GridWriter`/`GridReader`, `FullGrid._get_N_N`,
`get_total_volumes`, `SQRA.get_rate_matrix` and the sorting in `DecompositionTool.get_decomposition`).

Quantifiers: every ordered scalar field `F`; every map `exp : F → F` (its laws are hypotheses exactly where they are
used; `Molgri/Props/C14Real.lean` instantiates them at `ℝ`, `Real.exp`); every rounding function `rnd`; all constants
`kB NA T D`; all sub-grid inputs (sizes, factor, position matrices, rotation `coo_array`s, volumes); all file-system
states and path arguments; all energies; all ARPACK outputs.

What is *not* a theorem here: that ARPACK's output is an eigen-decomposition to the requested tolerance (external
library; checked on every run by the oracle of `harness/props/c14.py` against a dense solver).
-/
import Molgri.Lemmas.Pipeline
import Molgri.Lemmas.Reversible
import Mathlib.Tactic.NormNum.Basic
import Mathlib.Algebra.Order.Field.Rat
import Mathlib.Tactic.IntervalCases

namespace Molgri.C14
open Molgri.Pipeline Molgri.Reversible

set_option linter.unusedSectionVars false

variable {F : Type} [Field F] [LinearOrder F] [IsStrictOrderedRing F]

/-! ## 1. Writer ∘ reader = identity ("written with the package's writer, read back with its reader") -/

/-- the five files the writer creates are pairwise different files -/
def Distinct (t : Paths) : Prop := [t.grid, t.volumes, t.borders, t.distances, t.adjacency].Nodup

omit [Field F] [LinearOrder F] [IsStrictOrderedRing F] in
/-- **Reader ∘ writer = identity.**  After the five `save_*` calls (any previous directory content, any path arguments
whose target files are pairwise distinct; `np.save` / `save_npz` append their suffix unless present), the three
loads of `workflow/run_sqra` return exactly the volumes, borders and distances of the writer's grid, and the other two
loaders the adjacency and the full grid. -/
theorem read_after_write (g : Grid F) (p : Paths) (fs : FS F) (hd : Distinct p.targets) :
    readGeometry (writeGrid g p fs) p.targets = .ok (g.volumes, g.borders, g.distances)
    ∧ loadSparse (writeGrid g p fs) p.targets.adjacency = .ok g.adjacency
    ∧ loadNpy (writeGrid g p fs) p.targets.grid = .ok (.table g.fullGrid) := by
  simp only [Distinct, Paths.targets, List.nodup_cons, List.mem_cons, List.not_mem_nil, or_false, not_or,
    List.nodup_nil, and_true] at hd
  obtain ⟨⟨h1, h2, h3, h4⟩, ⟨h5, h6, h7⟩, ⟨h8, h9⟩, h10, _⟩ := hd
  refine ⟨?_, ?_, ?_⟩
  · simp only [readGeometry, loadNpy, loadSparse, writeGrid, saveVolumes, saveDistances, saveBorders, saveAdjacency,
      saveFullGrid, Paths.targets]
    rw [read_write_same]
    rw [read_write_other _ _ (Ne.symm h5 : withExt ".npz" p.borders ≠ withExt ".npy" p.volumes),
      read_write_other _ _ h8, read_write_same]
    rw [read_write_other _ _ (Ne.symm h6 : withExt ".npz" p.distances ≠ withExt ".npy" p.volumes), read_write_same]
    rfl
  · simp only [loadSparse, writeGrid, saveVolumes, saveDistances, saveBorders, saveAdjacency, saveFullGrid,
      Paths.targets]
    rw [read_write_other _ _ (Ne.symm h7 : withExt ".npz" p.adjacency ≠ withExt ".npy" p.volumes),
      read_write_other _ _ (Ne.symm h10 : withExt ".npz" p.adjacency ≠ withExt ".npz" p.distances),
      read_write_other _ _ (Ne.symm h9 : withExt ".npz" p.adjacency ≠ withExt ".npz" p.borders), read_write_same]
  · simp only [loadNpy, writeGrid, saveVolumes, saveDistances, saveBorders, saveAdjacency, saveFullGrid,
      Paths.targets]
    rw [read_write_other _ _ h1, read_write_other _ _ h3, read_write_other _ _ h2, read_write_other _ _ h4,
      read_write_same]

omit [Field F] [LinearOrder F] [IsStrictOrderedRing F] in
/-- the writer touches no other file -/
theorem write_preserves_others (g : Grid F) (p : Paths) (fs : FS F) (q : String)
    (hq : q ∉ [p.targets.grid, p.targets.volumes, p.targets.borders, p.targets.distances, p.targets.adjacency]) :
    (writeGrid g p fs).read q = fs.read q := by
  simp only [Paths.targets, List.mem_cons, List.not_mem_nil, or_false, not_or] at hq
  obtain ⟨h1, h2, h3, h4, h5⟩ := hq
  simp only [writeGrid, saveVolumes, saveDistances, saveBorders, saveAdjacency, saveFullGrid]
  rw [read_write_other _ _ h2, read_write_other _ _ h4, read_write_other _ _ h3, read_write_other _ _ h5,
    read_write_other _ _ h1]

omit [IsStrictOrderedRing F] in
/-- the pipeline through the files is the rate matrix of the writer's own geometry -/
theorem pipeline_eq (exp rnd : F → F) (kB NA : F) (g : Grid F) (p : Paths) (fs : FS F) (E : List F) (D T : F)
    (hd : Distinct p.targets) :
    pipeline exp rnd kB NA g p fs E D T = getRateMatrix exp rnd kB NA E g.volumes g.distances g.borders D T := by
  unfold pipeline
  rw [(read_after_write g p fs hd).1]
  rfl

/-- non-vacuity of `Distinct`: the file names of `workflow/run_grid` -/
example : Distinct (Paths.targets ⟨"full_array.npy", "volumes.npy", "borders_array.npz", "distances_array.npz",
    "adjacency_array.npz"⟩) := by
  unfold Distinct; decide +kernel

/-! ## 2. `FullGrid._get_N_N`: one assembly for adjacency, borders and distances
("same assembly order for borders and distances", `fullgrid.py:225-282`) -/

/-- **Entry rule** of the assembled matrix for every pair of cells `a, b` of the full grid (`n_t·n_o > 1`): cells with
the same position carry the rotation-grid entry, cells with the same rotation the kept position entry times its
factor (`1`, `f²`, `f`); cell `n` is `(n / n_b, n % n_b)`. -/
theorem full_entry (nP nB : Nat) (sel : Sel) (f : F) (P : Nat → Nat → F) (R : Mat F) (hP : 1 < nP)
    (hR : ∀ e ∈ R, e.row < nB ∧ e.col < nB) {a b : Nat} (ha : a < nP * nB) (hb : b < nP * nB) :
    dense (full nP nB sel f P R) a b = specVal nB sel f P R a b := by
  rw [full_eq_scan _ _ _ _ _ _ hP, dense_scan, if_pos ⟨ha, hb⟩, full_summands nP nB sel f P R hR ha hb]

/-- **Storage order** of the assembled matrix: row-major, columns ascending, exactly the pairs with a non-zero value
(canonical csr, whatever the storage order of the inputs). -/
theorem full_idx (nP nB : Nat) (sel : Sel) (f : F) (P : Nat → Nat → F) (R : Mat F) (hP : 1 < nP)
    (hR : ∀ e ∈ R, e.row < nB ∧ e.col < nB) :
    idx (full nP nB sel f P R) = (pairs (nP * nB)).filter fun p => specVal nB sel f P R p.1 p.2 != 0 := by
  rw [full_eq_scan _ _ _ _ _ _ hP, idx_scan]
  apply List.filter_congr
  rintro ⟨a, b⟩ hab
  rw [mem_pairs] at hab
  simp only [full_summands nP nB sel f P R hR hab.1 hab.2]

/-- every stored value of the assembled matrix is non-zero and equals the entry rule -/
theorem full_stored (nP nB : Nat) (sel : Sel) (f : F) (P : Nat → Nat → F) (R : Mat F) (hP : 1 < nP)
    (hR : ∀ e ∈ R, e.row < nB ∧ e.col < nB) {e : Ent F} (he : e ∈ full nP nB sel f P R) :
    e.row < nP * nB ∧ e.col < nP * nB ∧ e.val = specVal nB sel f P R e.row e.col ∧ e.val ≠ 0 := by
  rw [full_eq_scan _ _ _ _ _ _ hP, mem_scan] at he
  obtain ⟨h1, h2, h3, h4⟩ := he
  rw [full_summands nP nB sel f P R hR h1 h2] at h3 h4
  exact ⟨h1, h2, h4, h4 ▸ h3⟩

/-- the adjacency rule of the full grid: same position and neighbouring rotations, or same rotation and neighbouring
positions -/
def Support (nB : Nat) (P : Nat → Nat → F) (R : Mat F) (a b : Nat) : Prop :=
  (a / nB = b / nB ∧ dense (rotInput nB R) (a % nB) (b % nB) ≠ 0) ∨ (a % nB = b % nB ∧ P (a / nB) (b / nB) ≠ 0)

omit [LinearOrder F] [IsStrictOrderedRing F] in
theorem posValue_ne_zero (sel : Sel) {f el : F} (hf : f ≠ 0) (hel : el ≠ 0) : posValue sel f el ≠ 0 := by
  cases sel <;> simp [posValue, hf, hel]

/-- with empty diagonals of the sub-grid matrices and `f ≠ 0`, an entry is stored iff the adjacency rule holds -/
theorem specVal_ne_zero_iff (nP nB : Nat) (sel : Sel) (f : F) (P : Nat → Nat → F) (R : Mat F) (hf : f ≠ 0)
    (hPd : ∀ i < nP, P i i = 0) (hRd : ∀ k < nB, dense (rotInput nB R) k k = 0)
    {a b : Nat} (ha : a < nP * nB) :
    specVal nB sel f P R a b ≠ 0 ↔ Support nB P R a b := by
  have hpos : 0 < nB := by
    rcases Nat.eq_zero_or_pos nB with h | h
    · subst h; simp at ha
    · exact h
  unfold specVal Support
  by_cases h1 : a / nB = b / nB
  · by_cases h2 : a % nB = b % nB
    · have hab : a = b := by rw [← Nat.div_add_mod a nB, ← Nat.div_add_mod b nB, h1, h2]
      subst hab
      have e1 := hPd (a / nB) (div_lt_of_lt_mul ha)
      have e2 := hRd (a % nB) (Nat.mod_lt _ hpos)
      simp [e1, e2]
    · simp [h1, h2]
  · by_cases h2 : a % nB = b % nB
    · by_cases h3 : P (a / nB) (b / nB) = 0
      · simp [h1, h2, h3]
      · simp [h1, h2, h3, posValue_ne_zero sel hf h3]
    · simp [h1, h2]

/-- **Common pattern and common entry order.**  If two of the three families (e.g. borders and distances) have the
same support in their sub-grid matrices, empty diagonals, and `f ≠ 0`, the assembled matrices store exactly the same
`(row, col)` sequence, without repetition — the hypothesis the data-array division of `get_rate_matrix` needs. -/
theorem full_aligned (nP nB : Nat) (s₁ s₂ : Sel) (f : F) (P₁ P₂ : Nat → Nat → F) (R₁ R₂ : Mat F) (hP : 1 < nP)
    (hR₁ : ∀ e ∈ R₁, e.row < nB ∧ e.col < nB) (hR₂ : ∀ e ∈ R₂, e.row < nB ∧ e.col < nB) (hf : f ≠ 0)
    (hPd₁ : ∀ i < nP, P₁ i i = 0) (hPd₂ : ∀ i < nP, P₂ i i = 0)
    (hRd₁ : ∀ k < nB, dense (rotInput nB R₁) k k = 0) (hRd₂ : ∀ k < nB, dense (rotInput nB R₂) k k = 0)
    (hsupp : ∀ a < nP * nB, ∀ b < nP * nB, Support nB P₁ R₁ a b ↔ Support nB P₂ R₂ a b) :
    idx (full nP nB s₁ f P₁ R₁) = idx (full nP nB s₂ f P₂ R₂) ∧ (idx (full nP nB s₁ f P₁ R₁)).Nodup := by
  rw [full_idx _ _ _ _ _ _ hP hR₁, full_idx _ _ _ _ _ _ hP hR₂]
  refine ⟨?_, (nodup_pairs _).filter _⟩
  apply List.filter_congr
  rintro ⟨a, b⟩ hab
  rw [mem_pairs] at hab
  have i1 := specVal_ne_zero_iff nP nB s₁ f P₁ R₁ hf hPd₁ hRd₁ (b := b) hab.1
  have i2 := specVal_ne_zero_iff nP nB s₂ f P₂ R₂ hf hPd₂ hRd₂ (b := b) hab.1
  rw [Bool.eq_iff_iff]
  simp only [bne_iff_ne]
  rw [i1, i2]
  exact hsupp a hab.1 b hab.2

/-- **Symmetry transfer**: symmetric sub-grid matrices give a symmetric entry rule -/
theorem specVal_symm (nB : Nat) (sel : Sel) (f : F) (P : Nat → Nat → F) (R : Mat F) (a b : Nat)
    (hPs : P (a / nB) (b / nB) = P (b / nB) (a / nB))
    (hRs : dense (rotInput nB R) (a % nB) (b % nB) = dense (rotInput nB R) (b % nB) (a % nB)) :
    specVal nB sel f P R a b = specVal nB sel f P R b a := by
  unfold specVal
  rw [hRs, hPs]
  congr 1
  · by_cases h : a / nB = b / nB
    · rw [if_pos h, if_pos h.symm]
    · rw [if_neg h, if_neg (fun hh => h hh.symm)]
  · by_cases h : a % nB = b % nB ∧ P (b / nB) (a / nB) ≠ 0
    · rw [if_pos h, if_pos ⟨h.1.symm, h.2⟩]
    · rw [if_neg h, if_neg (fun hh => h ⟨hh.1.symm, hh.2⟩)]

/-! ## 3. `SQRA.get_rate_matrix` on aligned inputs -/

/-- `β = 1000/(2·k_B·N_A·T)`; the exponent of the code is `β·rnd(capped difference)`, and `1/(RT) = 2β` for energies in
kJ/mol -/
def beta (kB NA T : F) : F := 1000 / (2 * kB * NA * T)

/-- `π_i = V_i · exp(−E_i/RT)` -/
def boltz (exp : F → F) (kB NA T : F) (V E : Nat → F) (i : Nat) : F := V i * exp (-(2 * beta kB NA T) * E i)

theorem entryVal_eq (exp rnd : F → F) (kB NA T D : F) (V E : Nat → F) (r c : Nat) (s x : F) :
    entryVal exp rnd kB NA T D V E r c s x = D * s / x / V r * exp (beta kB NA T * rnd (capf (E r - E c))) := by
  unfold entryVal beta
  congr 2
  ring

/-- **Entry formula** off the diagonal: on the common pattern `D·S_ij/(h_ij·V_i)·exp(β·rnd(cap(E_i−E_j)))`, zero elsewhere
(`S`, `h` = surfaces and distances after `.tocoo()`, with one index sequence). -/
theorem rate_entry (exp rnd : F → F) (kB NA T D : F) (S h : Mat F) (V E : Nat → F) (i j : Nat)
    (hpat : idx S = idx h) (hnd : (idx S).Nodup) (hij : i ≠ j) :
    rate exp rnd kB NA T D S (dataOf h) V E i j
      = if (i, j) ∈ idx S then
          D * dense S i j / dense h i j / V i * exp (beta kB NA T * rnd (capf (E i - E j)))
        else 0 := by
  unfold rate
  simp only [if_neg hij, add_zero]
  rw [offDiag_eq, dense_zipWith (entryVal exp rnd kB NA T D V E) i j S h hpat hnd]
  simp only [entryVal_eq]

/-- **Zero row sums**, for every row, any alignment, any energies (also beyond the cap). -/
theorem rate_row_sum_zero (exp rnd : F → F) (kB NA T D : F) (S : Mat F) (hd : List F) (V E : Nat → F) (n i : Nat)
    (hc : ∀ e ∈ S, e.col < n) (hi : i < n) :
    ∑ j ∈ Finset.range n, rate exp rnd kB NA T D S hd V E i j = 0 := by
  unfold rate
  simp only []
  rw [Finset.sum_add_distrib, ← rowSum_eq_sum_dense _ n i (offDiag_cols hc), Finset.sum_ite_eq]
  simp [hi]

/-- the returned csr matrix (`tocsr() + diagonal.tocsr()`) read at `(i, j)` is `rate` -/
theorem rateMat_dense (exp rnd : F → F) (kB NA T D : F) (n : Nat) (S : Mat F) (hd : List F) (V E : Nat → F)
    {i j : Nat} (hi : i < n) (hj : j < n) :
    dense (rateMat exp rnd kB NA T D n S hd V E) i j = rate exp rnd kB NA T D S hd V E i j := by
  unfold rateMat rate
  simp only []
  rw [addCsr_eq_scan, dense_scan, if_pos ⟨hi, hj⟩, dense_diagEntries]
  congr 1
  by_cases h : i = j
  · rw [if_pos ⟨h, hi⟩, if_pos h]
  · rw [if_neg (fun hh => h hh.1), if_neg h]

/-- **Detailed balance of `get_rate_matrix`, rounding defect explicit.**  For a pair with symmetric surface and distance
values and both energy differences below the cap,
`π_i Q_ij e^{β(d − rnd d)} = π_j Q_ji e^{β(−d − rnd(−d))}`, `d = E_i − E_j`, `π = V·exp(−E/RT)`.
(`np.round(·, 14)` moves `d` by at most `5·10⁻¹⁵`; both correction factors are `1` when `rnd` fixes `±d`.) -/
theorem rate_detailed_balance_rnd (exp rnd : F → F) (kB NA T D : F) (S h : Mat F) (V E : Nat → F) (i j : Nat)
    (hexp : ∀ a b, exp (a + b) = exp a * exp b)
    (hpat : idx S = idx h) (hnd : (idx S).Nodup) (hij : i ≠ j)
    (hS : dense S i j = dense S j i) (hh : dense h i j = dense h j i)
    (hVi : V i ≠ 0) (hVj : V j ≠ 0)
    (hcap1 : E i - E j < 500) (hcap2 : E j - E i < 500) :
    boltz exp kB NA T V E i * rate exp rnd kB NA T D S (dataOf h) V E i j
        * exp (beta kB NA T * ((E i - E j) - rnd (E i - E j)))
      = boltz exp kB NA T V E j * rate exp rnd kB NA T D S (dataOf h) V E j i
        * exp (beta kB NA T * ((E j - E i) - rnd (E j - E i))) := by
  rw [rate_entry exp rnd kB NA T D S h V E i j hpat hnd hij,
      rate_entry exp rnd kB NA T D S h V E j i hpat hnd (Ne.symm hij)]
  have c1 : capf (E i - E j) = E i - E j := by unfold capf; rw [if_pos hcap1]
  have c2 : capf (E j - E i) = E j - E i := by unfold capf; rw [if_pos hcap2]
  rw [c1, c2]
  unfold boltz
  set β := beta kB NA T
  have e1 : exp (-(2 * β) * E i) * exp (β * rnd (E i - E j)) * exp (β * ((E i - E j) - rnd (E i - E j)))
      = exp (-(β * (E i + E j))) := by
    rw [← hexp, ← hexp]; congr 1; ring
  have e2 : exp (-(2 * β) * E j) * exp (β * rnd (E j - E i)) * exp (β * ((E j - E i) - rnd (E j - E i)))
      = exp (-(β * (E i + E j))) := by
    rw [← hexp, ← hexp]; congr 1; ring
  by_cases m1 : (i, j) ∈ idx S
  · by_cases m2 : (j, i) ∈ idx S
    · rw [if_pos m1, if_pos m2, ← hS, ← hh]
      calc V i * exp (-(2 * β) * E i) * (D * dense S i j / dense h i j / V i * exp (β * rnd (E i - E j)))
              * exp (β * ((E i - E j) - rnd (E i - E j)))
          = (V i / V i) * (D * dense S i j / dense h i j)
              * (exp (-(2 * β) * E i) * exp (β * rnd (E i - E j)) * exp (β * ((E i - E j) - rnd (E i - E j)))) := by
            ring
        _ = (V j / V j) * (D * dense S i j / dense h i j)
              * (exp (-(2 * β) * E j) * exp (β * rnd (E j - E i)) * exp (β * ((E j - E i) - rnd (E j - E i)))) := by
            rw [e1, e2, div_self hVi, div_self hVj]
        _ = _ := by ring
    · have z : dense S i j = 0 := by rw [hS]; exact dense_eq_zero_of_not_mem m2
      rw [if_pos m1, if_neg m2, z]; simp
  · by_cases m2 : (j, i) ∈ idx S
    · have z : dense S j i = 0 := by rw [← hS]; exact dense_eq_zero_of_not_mem m1
      rw [if_neg m1, if_pos m2, z]; simp
    · rw [if_neg m1, if_neg m2]; simp

/-- **Detailed balance** `V_i·exp(−E_i/RT)·Q_ij = V_j·exp(−E_j/RT)·Q_ji` for differences the rounding leaves unchanged. -/
theorem rate_detailed_balance (exp rnd : F → F) (kB NA T D : F) (S h : Mat F) (V E : Nat → F) (i j : Nat)
    (hexp : ∀ a b, exp (a + b) = exp a * exp b) (hexp0 : exp 0 = 1)
    (hpat : idx S = idx h) (hnd : (idx S).Nodup) (hij : i ≠ j)
    (hS : dense S i j = dense S j i) (hh : dense h i j = dense h j i)
    (hVi : V i ≠ 0) (hVj : V j ≠ 0)
    (hcap1 : E i - E j < 500) (hcap2 : E j - E i < 500)
    (hr1 : rnd (E i - E j) = E i - E j) (hr2 : rnd (E j - E i) = E j - E i) :
    boltz exp kB NA T V E i * rate exp rnd kB NA T D S (dataOf h) V E i j
      = boltz exp kB NA T V E j * rate exp rnd kB NA T D S (dataOf h) V E j i := by
  have := rate_detailed_balance_rnd exp rnd kB NA T D S h V E i j hexp hpat hnd hij hS hh hVi hVj hcap1 hcap2
  rw [hr1, hr2] at this
  simpa [hexp0] using this

/-- a stored position of a matrix without repeated positions carries a non-zero dense value when all stored values
are non-zero -/
theorem dense_ne_zero_of_mem {m : Mat F} (hnd : (idx m).Nodup) (hnz : ∀ e ∈ m, e.val ≠ 0) {i j : Nat}
    (hm : (i, j) ∈ idx m) : dense m i j ≠ 0 := by
  obtain ⟨e, he, hix⟩ := List.mem_map.mp hm
  simp only [ix, Prod.mk.injEq] at hix
  have := dense_eq_of_mem_nodup hnd he
  rw [hix.1, hix.2] at this
  rw [this]
  exact hnz e he

/-- **Off-diagonal pattern of the rate matrix = the common pattern of surfaces and distances.** -/
theorem rate_ne_zero_iff (exp rnd : F → F) (kB NA T D : F) (S h : Mat F) (V E : Nat → F) (i j : Nat)
    (hexp : ∀ x, exp x ≠ 0) (hD : D ≠ 0)
    (hpat : idx S = idx h) (hnd : (idx S).Nodup) (hij : i ≠ j)
    (hS : ∀ e ∈ S, e.val ≠ 0) (hh : ∀ e ∈ h, e.val ≠ 0) (hVi : V i ≠ 0) :
    rate exp rnd kB NA T D S (dataOf h) V E i j ≠ 0 ↔ (i, j) ∈ idx S := by
  rw [rate_entry exp rnd kB NA T D S h V E i j hpat hnd hij]
  constructor
  · intro hne
    by_contra hm
    rw [if_neg hm] at hne
    exact hne rfl
  · intro hm
    rw [if_pos hm]
    have h1 := dense_ne_zero_of_mem hnd hS hm
    have h2 := dense_ne_zero_of_mem (hpat ▸ hnd) hh (hpat ▸ hm)
    exact mul_ne_zero (div_ne_zero (div_ne_zero (mul_ne_zero hD h1) h2) hVi) (hexp _)

/-- stored positions of the returned csr matrix: inside the matrix and non-zero -/
theorem rateMat_idx (exp rnd : F → F) (kB NA T D : F) (n : Nat) (S : Mat F) (hd : List F) (V E : Nat → F) (i j : Nat) :
    (i, j) ∈ idx (rateMat exp rnd kB NA T D n S hd V E) ↔ i < n ∧ j < n ∧ rate exp rnd kB NA T D S hd V E i j ≠ 0 := by
  constructor
  · intro hm
    have hm' := hm
    unfold rateMat at hm'
    simp only [] at hm'
    rw [addCsr_eq_scan, mem_idx_scan] at hm'
    obtain ⟨h1, h2, _⟩ := hm'
    refine ⟨h1, h2, ?_⟩
    rw [← rateMat_dense exp rnd kB NA T D n S hd V E h1 h2]
    intro h0
    have hnd : (idx (rateMat exp rnd kB NA T D n S hd V E)).Nodup := by
      unfold rateMat; simp only []; rw [addCsr_eq_scan]; exact nodup_idx_scan _ _
    refine dense_ne_zero_of_mem hnd ?_ hm h0
    intro e he
    unfold rateMat at he
    simp only [] at he
    rw [addCsr_eq_scan, mem_scan] at he
    rw [he.2.2.2]; exact he.2.2.1
  · rintro ⟨h1, h2, h3⟩
    rw [← rateMat_dense exp rnd kB NA T D n S hd V E h1 h2] at h3
    by_contra hm
    exact h3 (dense_eq_zero_of_not_mem hm)

/-! ## 4. The composition: grid files ⇒ rate matrix -/

/-- What the property assumes about the geometry of the sub-grids (`n_t ≥ 2`, symmetric position and rotation
matrices with empty diagonals, one common support for adjacency, borders and distances, non-zero factor and volumes).
These are the conclusions of C03–C06 about the sub-grids; they are checked on the implementation on every run. -/
structure Valid (s : SubGrids F) : Prop where
  nP_gt : 1 < s.nP
  nB_pos : 0 < s.nB
  f_ne : s.f ≠ 0
  Ra_bounds : ∀ e ∈ s.Ra, e.row < s.nB ∧ e.col < s.nB
  Rb_bounds : ∀ e ∈ s.Rb, e.row < s.nB ∧ e.col < s.nB
  Rd_bounds : ∀ e ∈ s.Rd, e.row < s.nB ∧ e.col < s.nB
  Pb_symm : ∀ i < s.nP, ∀ j < s.nP, s.Pb i j = s.Pb j i
  Pd_symm : ∀ i < s.nP, ∀ j < s.nP, s.Pd i j = s.Pd j i
  Rb_symm : ∀ k < s.nB, ∀ l < s.nB, dense s.Rb k l = dense s.Rb l k
  Rd_symm : ∀ k < s.nB, ∀ l < s.nB, dense s.Rd k l = dense s.Rd l k
  Pa_diag : ∀ i < s.nP, s.Pa i i = 0
  Pb_diag : ∀ i < s.nP, s.Pb i i = 0
  Pd_diag : ∀ i < s.nP, s.Pd i i = 0
  Ra_diag : ∀ k < s.nB, dense s.Ra k k = 0
  Rb_diag : ∀ k < s.nB, dense s.Rb k k = 0
  Rd_diag : ∀ k < s.nB, dense s.Rd k k = 0
  P_supp_b : ∀ i < s.nP, ∀ j < s.nP, (s.Pb i j ≠ 0 ↔ s.Pd i j ≠ 0)
  P_supp_a : ∀ i < s.nP, ∀ j < s.nP, (s.Pa i j ≠ 0 ↔ s.Pd i j ≠ 0)
  R_supp_b : ∀ k < s.nB, ∀ l < s.nB, (dense s.Rb k l ≠ 0 ↔ dense s.Rd k l ≠ 0)
  R_supp_a : ∀ k < s.nB, ∀ l < s.nB, (dense s.Ra k l ≠ 0 ↔ dense s.Rd k l ≠ 0)
  Vpos_len : s.Vpos.length = s.nP
  Vrot_len : s.Vrot.length = s.nB
  Vpos_ne : ∀ v ∈ s.Vpos, v ≠ 0
  Vrot_ne : ∀ v ∈ s.Vrot, v ≠ 0

/-- the three matrices and the volumes the writer saves -/
def geomS (s : SubGrids F) : Mat F := full s.nP s.nB .borders s.f s.Pb s.Rb
def geomH (s : SubGrids F) : Mat F := full s.nP s.nB .distances s.f s.Pd s.Rd
def geomA (s : SubGrids F) : Mat F := full s.nP s.nB .adjacency s.f s.Pa s.Ra
def volOf (s : SubGrids F) (i : Nat) : F := (totalVolumes s.f s.Vpos s.Vrot).getD i 0

/-- the rate matrix of the pipeline read at `(i, j)` -/
def pipelineQ (exp rnd : F → F) (kB NA T D : F) (s : SubGrids F) (E : List F) (i j : Nat) : F :=
  rate exp rnd kB NA T D (geomS s) (dataOf (geomH s)) (volOf s) (fun k => E.getD k 0) i j

/-- `π_i = V_i·exp(−E_i/RT)` over the cells in grid order -/
def pipelinePi (exp : F → F) (kB NA T : F) (s : SubGrids F) (E : List F) (i : Nat) : F :=
  boltz exp kB NA T (volOf s) (fun k => E.getD k 0) i

theorem dense_rotInput (nB : Nat) (R : Mat F) (k l : Nat) :
    dense (rotInput nB R) k l = if nB > 1 then dense R k l else 0 := by
  unfold rotInput; split <;> simp

theorem support_congr (nP nB : Nat) (P₁ P₂ : Nat → Nat → F) (R₁ R₂ : Mat F)
    (hPs : ∀ i < nP, ∀ j < nP, (P₁ i j ≠ 0 ↔ P₂ i j ≠ 0))
    (hRs : ∀ k < nB, ∀ l < nB, (dense R₁ k l ≠ 0 ↔ dense R₂ k l ≠ 0)) :
    ∀ a < nP * nB, ∀ b < nP * nB, Support nB P₁ R₁ a b ↔ Support nB P₂ R₂ a b := by
  intro a ha b hb
  have hpos : 0 < nB := by
    rcases Nat.eq_zero_or_pos nB with h | h
    · subst h; simp at ha
    · exact h
  unfold Support
  rw [dense_rotInput, dense_rotInput, hPs _ (div_lt_of_lt_mul ha) _ (div_lt_of_lt_mul hb)]
  by_cases h1 : nB > 1
  · simp only [h1, if_true]
    rw [hRs _ (Nat.mod_lt _ hpos) _ (Nat.mod_lt _ hpos)]
  · simp only [h1, if_false]

namespace Valid
variable {s : SubGrids F} (hv : Valid s)
include hv

theorem rotDiag (R : Mat F) (h : ∀ k < s.nB, dense R k k = 0) : ∀ k < s.nB, dense (rotInput s.nB R) k k = 0 := by
  intro k hk; rw [dense_rotInput]; split
  · exact h k hk
  · rfl

/-- borders and distances: one stored index sequence, no repetition -/
theorem aligned_SH : idx (geomS s) = idx (geomH s) ∧ (idx (geomS s)).Nodup :=
  full_aligned s.nP s.nB .borders .distances s.f s.Pb s.Pd s.Rb s.Rd hv.nP_gt hv.Rb_bounds hv.Rd_bounds hv.f_ne
    hv.Pb_diag hv.Pd_diag (hv.rotDiag _ hv.Rb_diag) (hv.rotDiag _ hv.Rd_diag)
    (support_congr _ _ _ _ _ _ hv.P_supp_b hv.R_supp_b)

/-- adjacency and distances: the same stored index sequence -/
theorem aligned_AH : idx (geomA s) = idx (geomH s) :=
  (full_aligned s.nP s.nB .adjacency .distances s.f s.Pa s.Pd s.Ra s.Rd hv.nP_gt hv.Ra_bounds hv.Rd_bounds hv.f_ne
    hv.Pa_diag hv.Pd_diag (hv.rotDiag _ hv.Ra_diag) (hv.rotDiag _ hv.Rd_diag)
    (support_congr _ _ _ _ _ _ hv.P_supp_a hv.R_supp_a)).1

theorem vol_length : (totalVolumes s.f s.Vpos s.Vrot).length = s.nP * s.nB := by
  rw [totalVolumes_length, hv.Vpos_len, hv.Vrot_len]

theorem vol_ne {i : Nat} (hi : i < s.nP * s.nB) : volOf s i ≠ 0 := by
  unfold volOf
  apply totalVolumes_ne s.f s.Vpos s.Vrot hv.f_ne hv.Vpos_ne hv.Vrot_ne
  apply getD_mem_of_lt
  rw [hv.vol_length]; exact hi

theorem geomS_symm {i j : Nat} (hi : i < s.nP * s.nB) (hj : j < s.nP * s.nB) :
    dense (geomS s) i j = dense (geomS s) j i := by
  unfold geomS
  rw [full_entry _ _ _ _ _ _ hv.nP_gt hv.Rb_bounds hi hj, full_entry _ _ _ _ _ _ hv.nP_gt hv.Rb_bounds hj hi]
  apply specVal_symm
  · exact hv.Pb_symm _ (div_lt_of_lt_mul hi) _ (div_lt_of_lt_mul hj)
  · rw [dense_rotInput, dense_rotInput]
    split
    · exact hv.Rb_symm _ (Nat.mod_lt _ hv.nB_pos) _ (Nat.mod_lt _ hv.nB_pos)
    · rfl

theorem geomH_symm {i j : Nat} (hi : i < s.nP * s.nB) (hj : j < s.nP * s.nB) :
    dense (geomH s) i j = dense (geomH s) j i := by
  unfold geomH
  rw [full_entry _ _ _ _ _ _ hv.nP_gt hv.Rd_bounds hi hj, full_entry _ _ _ _ _ _ hv.nP_gt hv.Rd_bounds hj hi]
  apply specVal_symm
  · exact hv.Pd_symm _ (div_lt_of_lt_mul hi) _ (div_lt_of_lt_mul hj)
  · rw [dense_rotInput, dense_rotInput]
    split
    · exact hv.Rd_symm _ (Nat.mod_lt _ hv.nB_pos) _ (Nat.mod_lt _ hv.nB_pos)
    · rfl

end Valid

/-- **The pipeline does not raise and returns the csr matrix of `get_rate_matrix` on the writer's own geometry**:
GridWriter files → GridReader → `SQRA(E, volumes, distances, borders).get_rate_matrix(D, T)`, for one energy per
cell. -/
theorem pipeline_ok (exp rnd : F → F) (kB NA T D : F) (s : SubGrids F) (hv : Valid s) (p : Paths) (fs : FS F)
    (hd : Distinct p.targets) (E : List F) (hE : E.length = s.nP * s.nB) :
    pipeline exp rnd kB NA s.toGrid p fs E D T
      = .ok ⟨.csr, s.nP * s.nB, rateMat exp rnd kB NA T D (s.nP * s.nB) (geomS s) (dataOf (geomH s)) (volOf s)
          (fun k => E.getD k 0)⟩ := by
  rw [pipeline_eq _ _ _ _ _ _ _ _ _ _ hd]
  unfold getRateMatrix
  have hlen : (SubGrids.toGrid s).volumes.length = s.nP * s.nB := hv.vol_length
  rw [if_neg (by rw [hlen]; exact fun h => h hE)]
  have hl : (dataOf (SubGrids.toGrid s).distances.entries).length = (SubGrids.toGrid s).borders.entries.length := by
    have := congrArg List.length hv.aligned_SH.1
    simp only [idx, List.length_map] at this
    simp only [dataOf, List.length_map]
    exact this.symm
  have hb : broadcastData (SubGrids.toGrid s).borders.entries.length (dataOf (SubGrids.toGrid s).distances.entries)
      = some (dataOf (SubGrids.toGrid s).distances.entries) := by
    unfold broadcastData; rw [if_pos hl]
  rw [hb]
  simp only [hlen]
  rfl

/-- the matrix the pipeline returns, read densely, is `pipelineQ` -/
theorem pipeline_dense (exp rnd : F → F) (kB NA T D : F) (s : SubGrids F) (E : List F) {i j : Nat}
    (hi : i < s.nP * s.nB) (hj : j < s.nP * s.nB) :
    dense (rateMat exp rnd kB NA T D (s.nP * s.nB) (geomS s) (dataOf (geomH s)) (volOf s) (fun k => E.getD k 0)) i j
      = pipelineQ exp rnd kB NA T D s E i j :=
  rateMat_dense exp rnd kB NA T D _ _ _ _ _ hi hj

/-- **Detailed balance of the pipeline matrix** ("the resulting rate matrix satisfies detailed balance with respect to
`V_i·exp(−E_i/RT)` over the cells in grid order") for every pair of cells whose energy difference is below the cap
(and is left unchanged by the 14-decimal rounding). -/
theorem pipeline_detailed_balance (exp rnd : F → F) (kB NA T D : F) (s : SubGrids F) (hv : Valid s) (E : List F)
    (hexp : ∀ a b, exp (a + b) = exp a * exp b) (hexp0 : exp 0 = 1)
    {i j : Nat} (hi : i < s.nP * s.nB) (hj : j < s.nP * s.nB)
    (hcap1 : E.getD i 0 - E.getD j 0 < 500) (hcap2 : E.getD j 0 - E.getD i 0 < 500)
    (hr1 : rnd (E.getD i 0 - E.getD j 0) = E.getD i 0 - E.getD j 0)
    (hr2 : rnd (E.getD j 0 - E.getD i 0) = E.getD j 0 - E.getD i 0) :
    pipelinePi exp kB NA T s E i * pipelineQ exp rnd kB NA T D s E i j
      = pipelinePi exp kB NA T s E j * pipelineQ exp rnd kB NA T D s E j i := by
  by_cases hij : i = j
  · subst hij; rfl
  · exact rate_detailed_balance exp rnd kB NA T D (geomS s) (geomH s) (volOf s) (fun k => E.getD k 0) i j hexp hexp0
      hv.aligned_SH.1 hv.aligned_SH.2 hij (hv.geomS_symm hi hj) (hv.geomH_symm hi hj) (hv.vol_ne hi) (hv.vol_ne hj)
      hcap1 hcap2 hr1 hr2

/-- **Zero row sums of the pipeline matrix** (every row, any energies). -/
theorem pipeline_row_sum_zero (exp rnd : F → F) (kB NA T D : F) (s : SubGrids F) (hv : Valid s) (E : List F)
    {i : Nat} (hi : i < s.nP * s.nB) :
    ∑ j ∈ Finset.range (s.nP * s.nB), pipelineQ exp rnd kB NA T D s E i j = 0 := by
  unfold pipelineQ
  apply rate_row_sum_zero
  · intro e he
    exact (full_stored _ _ _ _ _ _ hv.nP_gt hv.Rb_bounds he).2.1
  · exact hi

/-- **Pattern** ("its off-diagonal pattern is the saved adjacency"): for two different cells the pipeline matrix is
non-zero exactly at the positions stored in the adjacency file. -/
theorem pipeline_pattern (exp rnd : F → F) (kB NA T D : F) (s : SubGrids F) (hv : Valid s) (E : List F)
    (hexp : ∀ x, exp x ≠ 0) (hD : D ≠ 0) {i j : Nat} (hi : i < s.nP * s.nB) (hij : i ≠ j) :
    pipelineQ exp rnd kB NA T D s E i j ≠ 0 ↔ (i, j) ∈ idx (geomA s) := by
  unfold pipelineQ
  rw [rate_ne_zero_iff exp rnd kB NA T D (geomS s) (geomH s) (volOf s) _ i j hexp hD hv.aligned_SH.1 hv.aligned_SH.2 hij
    (fun e he => (full_stored _ _ _ _ _ _ hv.nP_gt hv.Rb_bounds he).2.2.2)
    (fun e he => (full_stored _ _ _ _ _ _ hv.nP_gt hv.Rd_bounds he).2.2.2) (hv.vol_ne hi)]
  rw [hv.aligned_SH.1, hv.aligned_AH]

/-- the same for the stored pattern of the returned csr matrix -/
theorem pipeline_stored_pattern (exp rnd : F → F) (kB NA T D : F) (s : SubGrids F) (hv : Valid s) (E : List F)
    (hexp : ∀ x, exp x ≠ 0) (hD : D ≠ 0) {i j : Nat} (hij : i ≠ j) :
    (i, j) ∈ idx (rateMat exp rnd kB NA T D (s.nP * s.nB) (geomS s) (dataOf (geomH s)) (volOf s) (fun k => E.getD k 0))
      ↔ (i, j) ∈ idx (geomA s) := by
  rw [rateMat_idx]
  constructor
  · rintro ⟨h1, _, h3⟩
    exact (pipeline_pattern exp rnd kB NA T D s hv E hexp hD h1 hij).mp h3
  · intro hm
    have hm' := hm
    unfold geomA at hm'
    rw [full_idx _ _ _ _ _ _ hv.nP_gt hv.Ra_bounds, List.mem_filter, mem_pairs] at hm'
    exact ⟨hm'.1.1, hm'.1.2, (pipeline_pattern exp rnd kB NA T D s hv E hexp hD hm'.1.1 hij).mpr hm⟩

/-- **Grid order of the volumes**: cell `n_b·p + k` (position `p`, rotation `k`) has volume `Vpos[p]·f³·Vrot[k]`. -/
theorem volume_order (s : SubGrids F) (p k : Nat) (hp : p < s.Vpos.length) (hk : k < s.Vrot.length) :
    (totalVolumes s.f s.Vpos s.Vrot)[s.Vrot.length * p + k]? = some (s.Vpos[p] * (s.f * s.f * s.f) * s.Vrot[k]) :=
  totalVolumes_get s.f s.Vpos s.Vrot p k hp hk

/-! ## 5. Stationarity and spectrum of a reversible generator
("the largest eigenvalue is zero …, its left eigenvector is proportional to `V_i·exp(−E_i/RT)`", "real eigenvalues").
Matrices are functions `Nat → Nat → F` on the index set `{0,…,n-1}`. -/

/-- **`π` is a left null vector**: detailed balance ∧ zero row sums ⇒ `Σ_i π_i Q_ij = 0` for every `j`. -/
theorem stationary_of_db {n : Nat} {π : Nat → F} {Q : Nat → Nat → F} (hdb : DB n π Q) (hrs : RowSumZero n Q) :
    ∀ j < n, ∑ i ∈ Finset.range n, π i * Q i j = 0 :=
  Reversible.stationary_of_db hdb hrs

/-- **Zero is an eigenvalue**: the constant vector is a right null vector of a matrix with zero row sums. -/
theorem zero_eigenvalue {n : Nat} {Q : Nat → Nat → F} (hrs : RowSumZero n Q) (c : F) :
    ∀ i < n, ∑ j ∈ Finset.range n, Q i j * c = 0 :=
  Reversible.apply_const hrs c

/-- **Dirichlet form**: `2·Σ_i π_i f_i (Qf)_i = − Σ_i Σ_j π_i Q_ij (f_i − f_j)²`. -/
theorem dirichlet_form {n : Nat} {π : Nat → F} {Q : Nat → Nat → F} (hdb : DB n π Q) (hrs : RowSumZero n Q)
    (f : Nat → F) :
    2 * ∑ i ∈ Finset.range n, π i * f i * ∑ j ∈ Finset.range n, Q i j * f j
      = - ∑ i ∈ Finset.range n, ∑ j ∈ Finset.range n, π i * Q i j * (f i - f j) ^ 2 :=
  Reversible.dirichlet_form hdb hrs f

/-- **No positive eigenvalue** ("the largest is zero"): a real eigenvalue of a reversible generator (`π > 0`,
non-negative off-diagonal) is `≤ 0`. -/
theorem eigenvalue_nonpos {n : Nat} {π : Nat → F} {Q : Nat → Nat → F} (hdb : DB n π Q) (hrs : RowSumZero n Q)
    (hπ : ∀ i < n, 0 < π i) (hQ : ∀ i < n, ∀ j < n, i ≠ j → 0 ≤ Q i j)
    (f : Nat → F) (lam : F) (heig : ∀ i < n, ∑ j ∈ Finset.range n, Q i j * f j = lam * f i)
    (hf : ∃ i < n, f i ≠ 0) : lam ≤ 0 :=
  Reversible.eigenvalue_nonpos hdb hrs hπ hQ f lam heig hf

/-- **Real eigenvalues**: if `Q (u + i v) = (a + i b)(u + i v)` with `(u, v) ≠ 0` for a matrix in detailed balance with
a positive `π`, then `b = 0`. -/
theorem eigenvalue_real {n : Nat} {π : Nat → F} {Q : Nat → Nat → F} (hdb : DB n π Q)
    (hπ : ∀ i < n, 0 < π i) (u v : Nat → F) (a b : F)
    (hu : ∀ i < n, ∑ j ∈ Finset.range n, Q i j * u j = a * u i - b * v i)
    (hv : ∀ i < n, ∑ j ∈ Finset.range n, Q i j * v j = b * u i + a * v i)
    (hne : (∃ i < n, u i ≠ 0) ∨ (∃ i < n, v i ≠ 0)) : b = 0 :=
  Reversible.eigenvalue_real hdb hπ u v a b hu hv hne

/-- **The zero eigenvalue is simple on a connected grid, with left eigenvector `π`**: every `x` with `x Q = 0` is a
multiple of `π` (`x_i π_j = x_j π_i`), when every two cells are joined by a path of positive rates. -/
theorem left_null_proportional {n : Nat} {π : Nat → F} {Q : Nat → Nat → F} (hdb : DB n π Q) (hrs : RowSumZero n Q)
    (hπ : ∀ i < n, 0 < π i) (hQ : ∀ i < n, ∀ j < n, i ≠ j → 0 ≤ Q i j) (hconn : Connected n Q)
    (x : Nat → F) (hx : ∀ j < n, ∑ i ∈ Finset.range n, x i * Q i j = 0) :
    ∀ i < n, ∀ j < n, x i * π j = x j * π i :=
  Reversible.left_null_proportional hdb hrs hπ hQ hconn x hx


/-- **Left eigenvalues are real**: the solver is handed the transpose, i.e. it computes `x Q = λ x`.  If
`(u + i w) Q = (a + i b)(u + i w)` with `(u, w) ≠ 0` for a matrix in detailed balance with a positive `π`, then `b = 0`
(so taking `.real` of ARPACK's eigenvalues and eigenvectors loses nothing). -/
theorem left_eigenvalue_real {n : Nat} {π : Nat → F} {Q : Nat → Nat → F} (hdb : DB n π Q)
    (hπ : ∀ i < n, 0 < π i) (u w : Nat → F) (a b : F)
    (hu : ∀ j < n, ∑ i ∈ Finset.range n, u i * Q i j = a * u j - b * w j)
    (hw : ∀ j < n, ∑ i ∈ Finset.range n, w i * Q i j = b * u j + a * w j)
    (hne : (∃ i < n, u i ≠ 0) ∨ (∃ i < n, w i ≠ 0)) : b = 0 :=
  Reversible.left_eigenvalue_real hdb hπ u w a b hu hw hne

/-- **No positive left eigenvalue**: every real left eigenvalue of a reversible generator is `≤ 0`. -/
theorem left_eigenvalue_nonpos {n : Nat} {π : Nat → F} {Q : Nat → Nat → F} (hdb : DB n π Q) (hrs : RowSumZero n Q)
    (hπ : ∀ i < n, 0 < π i) (hQ : ∀ i < n, ∀ j < n, i ≠ j → 0 ≤ Q i j)
    (x : Nat → F) (lam : F) (heig : ∀ j < n, ∑ i ∈ Finset.range n, x i * Q i j = lam * x j)
    (hx : ∃ i < n, x i ≠ 0) : lam ≤ 0 :=
  Reversible.left_eigenvalue_nonpos hdb hrs hπ hQ x lam heig hx

/-! ### … instantiated at the pipeline matrix -/

/-- all energy differences are below the cap and unchanged by the rounding -/
def BelowCap (rnd : F → F) (E : List F) (n : Nat) : Prop :=
  ∀ i < n, ∀ j < n, E.getD i 0 - E.getD j 0 < 500 ∧ rnd (E.getD i 0 - E.getD j 0) = E.getD i 0 - E.getD j 0

theorem pipeline_DB (exp rnd : F → F) (kB NA T D : F) (s : SubGrids F) (hv : Valid s) (E : List F)
    (hexp : ∀ a b, exp (a + b) = exp a * exp b) (hexp0 : exp 0 = 1) (hcap : BelowCap rnd E (s.nP * s.nB)) :
    DB (s.nP * s.nB) (pipelinePi exp kB NA T s E) (pipelineQ exp rnd kB NA T D s E) := by
  intro i hi j hj
  exact pipeline_detailed_balance exp rnd kB NA T D s hv E hexp hexp0 hi hj (hcap i hi j hj).1 (hcap j hj i hi).1
    (hcap i hi j hj).2 (hcap j hj i hi).2

theorem pipeline_RowSumZero (exp rnd : F → F) (kB NA T D : F) (s : SubGrids F) (hv : Valid s) (E : List F) :
    RowSumZero (s.nP * s.nB) (pipelineQ exp rnd kB NA T D s E) :=
  fun _ hi => pipeline_row_sum_zero exp rnd kB NA T D s hv E hi

/-- **Stationarity of the pipeline matrix**: `Σ_i V_i·exp(−E_i/RT)·Q_ij = 0` for every cell `j`. -/
theorem pipeline_stationary (exp rnd : F → F) (kB NA T D : F) (s : SubGrids F) (hv : Valid s) (E : List F)
    (hexp : ∀ a b, exp (a + b) = exp a * exp b) (hexp0 : exp 0 = 1) (hcap : BelowCap rnd E (s.nP * s.nB)) :
    ∀ j < s.nP * s.nB, ∑ i ∈ Finset.range (s.nP * s.nB),
      pipelinePi exp kB NA T s E i * pipelineQ exp rnd kB NA T D s E i j = 0 :=
  stationary_of_db (pipeline_DB exp rnd kB NA T D s hv E hexp hexp0 hcap) (pipeline_RowSumZero exp rnd kB NA T D s hv E)

/-- signs of a physical geometry: positive factor, non-negative borders and distances, positive volumes -/
structure Positive (s : SubGrids F) : Prop where
  f_pos : 0 < s.f
  Pb_nonneg : ∀ i j, 0 ≤ s.Pb i j
  Pd_nonneg : ∀ i j, 0 ≤ s.Pd i j
  Rb_nonneg : ∀ e ∈ s.Rb, 0 ≤ e.val
  Rd_nonneg : ∀ e ∈ s.Rd, 0 ≤ e.val
  Vpos_pos : ∀ v ∈ s.Vpos, 0 < v
  Vrot_pos : ∀ v ∈ s.Vrot, 0 < v

theorem dense_nonneg {m : Mat F} (h : ∀ e ∈ m, 0 ≤ e.val) (i j : Nat) : 0 ≤ dense m i j := by
  induction m with
  | nil => simp
  | cons e m ih =>
    rw [dense_cons]
    have h1 := h e List.mem_cons_self
    have h2 := ih (fun x hx => h x (List.mem_cons_of_mem _ hx))
    split <;> linarith

theorem specVal_nonneg (nB : Nat) (sel : Sel) (f : F) (P : Nat → Nat → F) (R : Mat F) (hf : 0 < f)
    (hP : ∀ i j, 0 ≤ P i j) (hR : ∀ e ∈ R, 0 ≤ e.val) (a b : Nat) : 0 ≤ specVal nB sel f P R a b := by
  unfold specVal
  apply add_nonneg
  · split
    · apply dense_nonneg
      unfold rotInput; split
      · exact hR
      · simp
    · exact le_rfl
  · split
    · cases sel
      · simp [posValue]
      · exact mul_nonneg (hP _ _) (mul_nonneg hf.le hf.le)
      · exact mul_nonneg (hP _ _) hf.le
    · exact le_rfl

/-- **Generator signs of the pipeline matrix**: off-diagonal entries are non-negative. -/
theorem pipeline_offdiag_nonneg (exp rnd : F → F) (kB NA T D : F) (s : SubGrids F) (hv : Valid s) (hp : Positive s)
    (E : List F) (hexp : ∀ x, 0 < exp x) (hD : 0 ≤ D) {i j : Nat} (hi : i < s.nP * s.nB) (hj : j < s.nP * s.nB)
    (hij : i ≠ j) : 0 ≤ pipelineQ exp rnd kB NA T D s E i j := by
  unfold pipelineQ
  rw [rate_entry exp rnd kB NA T D (geomS s) (geomH s) (volOf s) _ i j hv.aligned_SH.1 hv.aligned_SH.2 hij]
  split
  · have h1 : 0 ≤ dense (geomS s) i j := by
      unfold geomS
      rw [full_entry _ _ _ _ _ _ hv.nP_gt hv.Rb_bounds hi hj]
      exact specVal_nonneg _ _ _ _ _ hp.f_pos hp.Pb_nonneg hp.Rb_nonneg _ _
    have h2 : 0 ≤ dense (geomH s) i j := by
      unfold geomH
      rw [full_entry _ _ _ _ _ _ hv.nP_gt hv.Rd_bounds hi hj]
      exact specVal_nonneg _ _ _ _ _ hp.f_pos hp.Pd_nonneg hp.Rd_nonneg _ _
    have h3 : 0 ≤ volOf s i := by
      unfold volOf
      have hm : (totalVolumes s.f s.Vpos s.Vrot).getD i 0 ∈ totalVolumes s.f s.Vpos s.Vrot :=
        getD_mem_of_lt _ (by rw [hv.vol_length]; exact hi)
      unfold totalVolumes at hm
      rw [List.mem_flatMap] at hm
      obtain ⟨a, ha, hm⟩ := hm
      rw [List.mem_map] at hm
      obtain ⟨b, hb, hm⟩ := hm
      unfold totalVolumes
      rw [← hm]
      have := hp.f_pos
      exact (mul_pos (mul_pos (hp.Vpos_pos a ha) (by positivity)) (hp.Vrot_pos b hb)).le
    exact mul_nonneg (div_nonneg (div_nonneg (mul_nonneg hD h1) h2) h3) (hexp _).le
  · exact le_rfl

/-- `π_i = V_i·exp(−E_i/RT) > 0` -/
theorem pipeline_pi_pos (exp : F → F) (kB NA T : F) (s : SubGrids F) (hv : Valid s) (hp : Positive s) (E : List F)
    (hexp : ∀ x, 0 < exp x) {i : Nat} (hi : i < s.nP * s.nB) : 0 < pipelinePi exp kB NA T s E i := by
  unfold pipelinePi boltz
  apply mul_pos _ (hexp _)
  unfold volOf
  have hm : (totalVolumes s.f s.Vpos s.Vrot).getD i 0 ∈ totalVolumes s.f s.Vpos s.Vrot :=
    getD_mem_of_lt _ (by rw [hv.vol_length]; exact hi)
  unfold totalVolumes at hm
  rw [List.mem_flatMap] at hm
  obtain ⟨a, ha, hm⟩ := hm
  rw [List.mem_map] at hm
  obtain ⟨b, hb, hm⟩ := hm
  unfold totalVolumes
  rw [← hm]
  have := hp.f_pos
  exact mul_pos (mul_pos (hp.Vpos_pos a ha) (by positivity)) (hp.Vrot_pos b hb)

/-- the saved adjacency makes the grid connected -/
def AdjConnected (s : SubGrids F) : Prop :=
  ∀ i < s.nP * s.nB, ∀ j < s.nP * s.nB, Relation.ReflTransGen (fun a b => (a, b) ∈ idx (geomA s)) i j

/-- **Spectrum of the pipeline matrix** (all clauses of the property that do not depend on the eigen-solver):
for a valid, positive geometry, energies below the cap, `D > 0`:
1. every complex eigenvalue is real; 2. every real eigenvalue is `≤ 0`; 3. `0` is an eigenvalue with right
eigenvector `1` and left eigenvector `π = V·exp(−E/RT)`; 4. on a grid whose saved adjacency is connected every left
null vector is proportional to `π` (the zero eigenvalue is simple). -/
theorem pipeline_spectrum (exp rnd : F → F) (kB NA T D : F) (s : SubGrids F) (hv : Valid s) (hp : Positive s)
    (E : List F) (hexp : ∀ a b, exp (a + b) = exp a * exp b) (hexp0 : exp 0 = 1) (hexpp : ∀ x, 0 < exp x)
    (hD : 0 < D) (hcap : BelowCap rnd E (s.nP * s.nB)) :
    let n := s.nP * s.nB
    let Q := pipelineQ exp rnd kB NA T D s E
    let π := pipelinePi exp kB NA T s E
    (∀ (u v : Nat → F) (a b : F),
        (∀ i < n, ∑ j ∈ Finset.range n, Q i j * u j = a * u i - b * v i) →
        (∀ i < n, ∑ j ∈ Finset.range n, Q i j * v j = b * u i + a * v i) →
        ((∃ i < n, u i ≠ 0) ∨ (∃ i < n, v i ≠ 0)) → b = 0)
    ∧ (∀ (f : Nat → F) (lam : F), (∀ i < n, ∑ j ∈ Finset.range n, Q i j * f j = lam * f i) →
        (∃ i < n, f i ≠ 0) → lam ≤ 0)
    ∧ (∀ i < n, ∑ j ∈ Finset.range n, Q i j * 1 = 0)
    ∧ (∀ j < n, ∑ i ∈ Finset.range n, π i * Q i j = 0)
    ∧ (AdjConnected s → ∀ x : Nat → F, (∀ j < n, ∑ i ∈ Finset.range n, x i * Q i j = 0) →
        ∀ i < n, ∀ j < n, x i * π j = x j * π i) := by
  intro n Q π
  have hdb : DB n π Q := pipeline_DB exp rnd kB NA T D s hv E hexp hexp0 hcap
  have hrs : RowSumZero n Q := pipeline_RowSumZero exp rnd kB NA T D s hv E
  have hπ : ∀ i < n, 0 < π i := fun i hi => pipeline_pi_pos exp kB NA T s hv hp E hexpp hi
  have hQ : ∀ i < n, ∀ j < n, i ≠ j → 0 ≤ Q i j :=
    fun i hi j hj hij => pipeline_offdiag_nonneg exp rnd kB NA T D s hv hp E hexpp hD.le hi hj hij
  refine ⟨fun u v a b hu hv' hne => eigenvalue_real hdb hπ u v a b hu hv' hne,
    fun f lam heig hf => eigenvalue_nonpos hdb hrs hπ hQ f lam heig hf,
    zero_eigenvalue hrs 1, stationary_of_db hdb hrs, ?_⟩
  intro hconn x hx
  apply left_null_proportional hdb hrs hπ hQ _ x hx
  intro i hi j hj
  refine Relation.ReflTransGen.mono ?_ i j (hconn i hi j hj)
  intro a b hab
  have hab' := hab
  unfold geomA at hab'
  rw [full_idx _ _ _ _ _ _ hv.nP_gt hv.Ra_bounds, List.mem_filter, mem_pairs] at hab'
  obtain ⟨⟨ha, hb⟩, hnz⟩ := hab'
  have hne : a ≠ b := by
    rintro rfl
    have h0 : specVal s.nB Sel.adjacency s.f s.Pa s.Ra a a ≠ 0 := by simpa using hnz
    rw [specVal_ne_zero_iff s.nP s.nB _ s.f s.Pa s.Ra hv.f_ne hv.Pa_diag (hv.rotDiag _ hv.Ra_diag) ha] at h0
    unfold Support at h0
    have e1 := hv.Pa_diag (a / s.nB) (div_lt_of_lt_mul ha)
    have e2 := hv.rotDiag _ hv.Ra_diag (a % s.nB) (Nat.mod_lt _ hv.nB_pos)
    rcases h0 with h | h
    · exact h.2 e2
    · exact h.2 e1
  have hq : Q a b ≠ 0 := (pipeline_pattern exp rnd kB NA T D s hv E (fun x => (hexpp x).ne') hD.ne' ha hne).mpr hab
  exact ⟨ha, hb, lt_of_le_of_ne (hQ a ha b hb hne) (Ne.symm hq)⟩


/-- **Left spectrum of the pipeline matrix** (what the solver is asked for: eigenpairs of the transpose): every complex
left eigenvalue is real and every left eigenvalue is `≤ 0`. -/
theorem pipeline_left_spectrum (exp rnd : F → F) (kB NA T D : F) (s : SubGrids F) (hv : Valid s) (hp : Positive s)
    (E : List F) (hexp : ∀ a b, exp (a + b) = exp a * exp b) (hexp0 : exp 0 = 1) (hexpp : ∀ x, 0 < exp x)
    (hD : 0 < D) (hcap : BelowCap rnd E (s.nP * s.nB)) :
    let n := s.nP * s.nB
    let Q := pipelineQ exp rnd kB NA T D s E
    (∀ (u w : Nat → F) (a b : F),
        (∀ j < n, ∑ i ∈ Finset.range n, u i * Q i j = a * u j - b * w j) →
        (∀ j < n, ∑ i ∈ Finset.range n, w i * Q i j = b * u j + a * w j) →
        ((∃ i < n, u i ≠ 0) ∨ (∃ i < n, w i ≠ 0)) → b = 0)
    ∧ (∀ (x : Nat → F) (lam : F), (∀ j < n, ∑ i ∈ Finset.range n, x i * Q i j = lam * x j) →
        (∃ i < n, x i ≠ 0) → lam ≤ 0) := by
  intro n Q
  have hdb : DB n (pipelinePi exp kB NA T s E) Q := pipeline_DB exp rnd kB NA T D s hv E hexp hexp0 hcap
  have hrs : RowSumZero n Q := pipeline_RowSumZero exp rnd kB NA T D s hv E
  have hπ : ∀ i < n, 0 < pipelinePi exp kB NA T s E i := fun i hi => pipeline_pi_pos exp kB NA T s hv hp E hexpp hi
  have hQ : ∀ i < n, ∀ j < n, i ≠ j → 0 ≤ Q i j :=
    fun i hi j hj hij => pipeline_offdiag_nonneg exp rnd kB NA T D s hv hp E hexpp hD.le hi hj hij
  exact ⟨fun u w a b hu hw hne => left_eigenvalue_real hdb hπ u w a b hu hw hne,
    fun x lam heig hx => left_eigenvalue_nonpos hdb hrs hπ hQ x lam heig hx⟩

/-! ## 6. `get_decomposition` after the ARPACK call: sorting keeps the pairs -/

/-- **Sorting keeps every eigenvalue with its eigenvector**: the returned `(eigenvalue, eigenvector)` pairs are a
permutation of the real parts of ARPACK's pairs. -/
theorem sortEig_pairs (d : F) (vals : List (F × F)) (cols : List (List (F × F))) (hlen : cols.length = vals.length) :
    ((sortEig d vals cols).1.zip (sortEig d vals cols).2).Perm
      ((vals.map (·.1)).zip (cols.map fun c => c.map (·.1))) := by
  rw [sortEig_fst, sortEig_snd, List.zip_map']
  have hperm := (sortIdx_perm d vals).map
    (fun k => ((vals.map (·.1)).getD k d, (cols.map fun c => c.map (·.1)).getD k []))
  have hr := range_map_getD_zip (vals.map (·.1)) (cols.map fun c => c.map (·.1)) d [] (by simp [hlen])
  rw [List.length_map] at hr
  rw [hr] at hperm
  exact hperm

/-- **The returned eigenvalues are in descending order.** -/
theorem sortEig_descending (d : F) (vals : List (F × F)) (cols : List (List (F × F))) :
    (sortEig d vals cols).1.Pairwise (· ≥ ·) := by
  rw [sortEig_fst, List.pairwise_map]
  exact sortIdx_sorted d vals

/-- as many eigenvalues and eigenvectors come back as ARPACK returned -/
theorem sortEig_length (d : F) (vals : List (F × F)) (cols : List (List (F × F))) :
    (sortEig d vals cols).1.length = vals.length ∧ (sortEig d vals cols).2.length = vals.length := by
  rw [sortEig_fst, sortEig_snd, List.length_map, List.length_map, (sortIdx_perm d vals).length_eq, List.length_range]
  exact ⟨rfl, rfl⟩


/-
OPEN (not a theorem here; the claim of C14 is partial):

  "For solver settings whose spectral shift is absent or not itself an eigenvalue, the spectral decomposition of that
   matrix returns real eigenvalues sorted in descending order that agree with a dense eigen-solver, the largest is zero
   within solver tolerance, and its left eigenvector is proportional to V_i·exp(−E_i/RT)."

  theorem decomposition_spec : ∀ settings (σ absent or not an eigenvalue), get_decomposition Q settings returns
      (λ_1 ≥ … ≥ λ_k, v_1 … v_k) with  v_t Q = λ_t v_t,  λ_t real,  λ_1 = 0,  v_1 ∝ π

Missing: a specification of `scipy.sparse.linalg.eigs` (ARPACK): that what it returns are eigenpairs of the matrix it is
given, to the requested tolerance, and that the requested end of the spectrum is among them.  ARPACK is an external
Fortran/C library and is a parameter of the model (`vals`, `cols` below); on the unchanged tree the second part is in
fact false for some inputs (finding F13: the zero eigenvalue is skipped).  What is proved for all inputs:

  * `decomposition_partial`: whatever the solver returns, the code returns exactly the real parts of the solver's pairs,
    each eigenvalue with its own vector, in descending order;
  * `left_eigenvalue_real`, `left_eigenvalue_nonpos`, `pipeline_spectrum`: *if* a returned pair is a left eigenpair of
    the pipeline matrix, its eigenvalue is real and `≤ 0`; `0` is an eigenvalue with left eigenvector `π`, and on a
    connected grid every left eigenvector for `0` is proportional to `π`.

The harness checks the missing part on every run against `numpy.linalg.eigvals` (oracle of `harness/props/c14.py`).
-/

/-- **What `get_decomposition` does with the solver's output** (all solver outputs, all sizes): the returned pairs are a
permutation of the real parts of the solver's pairs (every eigenvalue keeps its own eigenvector), the eigenvalues are in
descending order, and nothing is dropped or added. -/
theorem decomposition_partial (d : F) (vals : List (F × F)) (cols : List (List (F × F)))
    (hlen : cols.length = vals.length) :
    ((sortEig d vals cols).1.zip (sortEig d vals cols).2).Perm ((vals.map (·.1)).zip (cols.map fun c => c.map (·.1)))
    ∧ (sortEig d vals cols).1.Pairwise (· ≥ ·)
    ∧ (sortEig d vals cols).1.length = vals.length ∧ (sortEig d vals cols).2.length = vals.length :=
  ⟨sortEig_pairs d vals cols hlen, sortEig_descending d vals cols, sortEig_length d vals cols⟩

/-! ## Non-vacuity: a concrete geometry satisfying every hypothesis

Two positions × two rotations (cells `0=(0,0), 1=(0,1), 2=(1,0), 3=(1,1)`), factor 2; the two positions are neighbours
(border 3, distance 1/2), the two rotations are neighbours (border 5, distance 7). Over `ℚ`, with the (degenerate)
homomorphism `exp = 1`; `Molgri/Props/C14Real.lean` has `Real.exp`. -/
namespace Example

def ex : SubGrids Rat where
  nP := 2
  nB := 2
  f := 2
  Pa := fun i j => if i + j = 1 then 1 else 0
  Pb := fun i j => if i + j = 1 then 3 else 0
  Pd := fun i j => if i + j = 1 then 1/2 else 0
  Ra := [⟨0, 1, 1⟩, ⟨1, 0, 1⟩]
  Rb := [⟨0, 1, 5⟩, ⟨1, 0, 5⟩]
  Rd := [⟨0, 1, 7⟩, ⟨1, 0, 7⟩]
  Vpos := [1, 2]
  Vrot := [3, 4]
  positions := [[0, 0, 1], [0, 0, 2]]
  quats := [[1, 0, 0, 0], [0, 1, 0, 0]]

def exE : List Rat := [0, 3, -2, 10]

/-- every field of `Valid` (all bounded quantifiers) by kernel evaluation -/
theorem ex_valid : Valid ex := by
  constructor <;> decide +kernel

theorem ex_positive : Positive ex := by
  refine ⟨by decide +kernel, ?_, ?_, by decide +kernel, by decide +kernel, by decide +kernel, by decide +kernel⟩
  · intro i j; simp only [ex]; split <;> norm_num
  · intro i j; simp only [ex]; split <;> norm_num

theorem ex_belowCap : BelowCap (F := Rat) id exE (ex.nP * ex.nB) := by
  unfold BelowCap; decide +kernel

theorem ex_adjacency : idx (geomA ex) = [(0, 1), (0, 2), (1, 0), (1, 3), (2, 0), (2, 3), (3, 1), (3, 2)] := by
  decide +kernel

theorem ex_connected : AdjConnected ex := by
  have e : ∀ a b, (a, b) ∈ [(0, 1), (0, 2), (1, 0), (1, 3), (2, 0), (2, 3), (3, 1), (3, 2)] →
      Relation.ReflTransGen (fun a b => (a, b) ∈ idx (geomA ex)) a b := by
    intro a b h
    exact Relation.ReflTransGen.single (by rw [ex_adjacency]; exact h)
  have from0 : ∀ j < 4, Relation.ReflTransGen (fun a b => (a, b) ∈ idx (geomA ex)) 0 j := by
    intro j hj
    interval_cases j
    · exact Relation.ReflTransGen.refl
    · exact e 0 1 (by decide)
    · exact e 0 2 (by decide)
    · exact (e 0 1 (by decide)).trans (e 1 3 (by decide))
  have to0 : ∀ i < 4, Relation.ReflTransGen (fun a b => (a, b) ∈ idx (geomA ex)) i 0 := by
    intro i hi
    interval_cases i
    · exact Relation.ReflTransGen.refl
    · exact e 1 0 (by decide)
    · exact e 2 0 (by decide)
    · exact (e 3 1 (by decide)).trans (e 1 0 (by decide))
  intro i hi j hj
  exact (to0 i hi).trans (from0 j hj)

/-- the pipeline matrix of the example is not trivial: the value at `(0,1)` (same position, neighbouring rotations)
is `D·5/(7·24) = 5/168`, the diagonal is `−89/168`, and `(0,3)` is not adjacent -/
example : pipelineQ (fun _ => 1) id 1 1 1 1 ex exE 0 1 = 5 / 168 ∧ pipelineQ (fun _ => 1) id 1 1 1 1 ex exE 0 0 = -89 / 168
    ∧ pipelineQ (fun _ => 1) id 1 1 1 1 ex exE 0 3 = 0 := by decide +kernel

/-- all hypotheses of `pipeline_spectrum` (hence of every theorem above) hold for the example -/
example := pipeline_spectrum (fun _ => (1 : Rat)) id 1 1 1 1 ex ex_valid ex_positive exE (fun _ _ => by norm_num) rfl
  (fun _ => by norm_num) (by norm_num) ex_belowCap
example := pipeline_left_spectrum (fun _ => (1 : Rat)) id 1 1 1 1 ex ex_valid ex_positive exE (fun _ _ => by norm_num) rfl
  (fun _ => by norm_num) (by norm_num) ex_belowCap

/-- hypotheses of `pipeline_ok` -/
example : Distinct (Paths.targets ⟨"g", "v", "b", "d", "a"⟩) ∧ exE.length = ex.nP * ex.nB := by
  constructor
  · unfold Distinct; decide +kernel
  · rfl

/-- … and the pipeline through the files indeed returns a 4 × 4 csr matrix with 12 stored entries -/
example : (match pipeline (fun _ => 1) id 1 1 ex.toGrid ⟨"g", "v", "b", "d", "a"⟩ [] exE 1 1 with
    | .ok Q => Q.n == 4 && Q.entries.length == 12
    | .error _ => false) = true := by decide +kernel

/-- hypotheses of `sortEig_pairs`: three eigenpairs, returned in descending order with their vectors -/
example : sortEig (0 : Rat) [(-3, 0), (0, 0), (-1, 0)] [[(1, 0), (2, 0)], [(3, 0), (4, 0)], [(5, 0), (6, 0)]]
    = ([0, -1, -3], [[3, 4], [5, 6], [1, 2]]) := by decide +kernel

/-- **Why the common support is a hypothesis** (the mechanism of the open finding F11, a concrete witness, not a
theorem about all inputs): if one border entry is zero where the distance is not (an unbounded Cartesian cell reports
border 0), the truthiness filter drops it from the borders only, the two saved matrices have different numbers of
stored entries, and `get_rate_matrix` raises `ValueError`. -/
theorem unequal_support_raises :
    let bad : SubGrids Rat := { ex with Pb := fun i j => if i = 0 ∧ j = 1 then 3 else 0 }
    (match pipeline (fun _ => 1) id 1 1 bad.toGrid ⟨"g", "v", "b", "d", "a"⟩ [] exE 1 1 with
      | .ok _ => false
      | .error e => e == "ValueError") = true := by decide +kernel

/-- **Why the common entry order is a hypothesis**: the same distances stored in another order (pair order instead of
row-major) give another rate matrix, because the division is a zip over storage orders. -/
theorem misaligned_order_changes_rates :
    let S : Mat Rat := [⟨0, 1, 6⟩, ⟨0, 2, 6⟩, ⟨1, 0, 6⟩, ⟨2, 0, 6⟩]
    let h : Mat Rat := [⟨0, 1, 2⟩, ⟨0, 2, 3⟩, ⟨1, 0, 2⟩, ⟨2, 0, 3⟩]
    let h' : Mat Rat := [⟨0, 1, 2⟩, ⟨1, 0, 2⟩, ⟨0, 2, 3⟩, ⟨2, 0, 3⟩]
    (∀ i < 3, ∀ j < 3, dense h' i j = dense h i j) ∧
    rate (fun _ => 1) id 1 1 1 1 S (dataOf h) (fun _ => 1) (fun _ => 0) 0 2 = 2 ∧
    rate (fun _ => 1) id 1 1 1 1 S (dataOf h') (fun _ => 1) (fun _ => 0) 0 2 = 3 := by
  decide +kernel

end Example

end Molgri.C14
