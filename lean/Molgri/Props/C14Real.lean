/-
C14 — the scalar hypotheses are satisfiable: the theorems of `Molgri/Props/C14.lean` instantiated at `F = ℝ`,
`exp = Real.exp` (`Real.exp_add`, `Real.exp_zero`, `Real.exp_pos`), with the stationary weights in the literal form of
the property, `π_i = V_i·exp(−E_i/(RT))`, `R = k_B·N_A/1000` (kJ/(mol·K)).
-/
import Molgri.Props.C14
import Mathlib.Analysis.Complex.Exponential

namespace Molgri.C14
open Molgri.Pipeline Molgri.Reversible

/-- `2β = 1/(RT)` with `R = k_B·N_A/1000`. -/
theorem two_beta_real (kB NA T x : ℝ) : -(2 * beta kB NA T) * x = -x / (kB * NA / 1000 * T) := by
  unfold beta
  by_cases h : kB * NA * T = 0
  · have h2 : 2 * kB * NA * T = 0 := by linarith
    have h3 : kB * NA / 1000 * T = 0 := by linarith
    rw [h2, h3]; simp
  · have h1 : kB ≠ 0 := by intro h0; apply h; rw [h0]; ring
    have h2 : NA ≠ 0 := by intro h0; apply h; rw [h0]; ring
    have h3 : T ≠ 0 := by intro h0; apply h; rw [h0]; ring
    field_simp

/-- the weights of the property over ℝ -/
noncomputable def piReal (kB NA T : ℝ) (s : SubGrids ℝ) (E : List ℝ) (i : Nat) : ℝ :=
  volOf s i * Real.exp (-(E.getD i 0) / (kB * NA / 1000 * T))

theorem pipelinePi_real (kB NA T : ℝ) (s : SubGrids ℝ) (E : List ℝ) (i : Nat) :
    pipelinePi Real.exp kB NA T s E i = piReal kB NA T s E i := by
  unfold pipelinePi boltz piReal
  rw [two_beta_real]

/-- **Detailed balance of the pipeline matrix over ℝ, in the form of the property.** -/
theorem pipeline_detailed_balance_real (rnd : ℝ → ℝ) (kB NA T D : ℝ) (s : SubGrids ℝ) (hv : Valid s) (E : List ℝ)
    {i j : Nat} (hi : i < s.nP * s.nB) (hj : j < s.nP * s.nB)
    (hcap1 : E.getD i 0 - E.getD j 0 < 500) (hcap2 : E.getD j 0 - E.getD i 0 < 500)
    (hr1 : rnd (E.getD i 0 - E.getD j 0) = E.getD i 0 - E.getD j 0)
    (hr2 : rnd (E.getD j 0 - E.getD i 0) = E.getD j 0 - E.getD i 0) :
    piReal kB NA T s E i * pipelineQ Real.exp rnd kB NA T D s E i j
      = piReal kB NA T s E j * pipelineQ Real.exp rnd kB NA T D s E j i := by
  rw [← pipelinePi_real, ← pipelinePi_real]
  exact pipeline_detailed_balance Real.exp rnd kB NA T D s hv E Real.exp_add Real.exp_zero hi hj hcap1 hcap2 hr1 hr2

/-- **Stationarity over ℝ**: `Σ_i V_i·exp(−E_i/RT)·Q_ij = 0`. -/
theorem pipeline_stationary_real (rnd : ℝ → ℝ) (kB NA T D : ℝ) (s : SubGrids ℝ) (hv : Valid s) (E : List ℝ)
    (hcap : BelowCap rnd E (s.nP * s.nB)) :
    ∀ j < s.nP * s.nB, ∑ i ∈ Finset.range (s.nP * s.nB),
      piReal kB NA T s E i * pipelineQ Real.exp rnd kB NA T D s E i j = 0 := by
  intro j hj
  have := pipeline_stationary Real.exp rnd kB NA T D s hv E Real.exp_add Real.exp_zero hcap j hj
  simpa only [pipelinePi_real] using this

/-- **Spectrum over ℝ**: all clauses of `pipeline_spectrum` with `exp = Real.exp` (real eigenvalues, none positive, zero
eigenvalue with right vector `1` and left vector `π`, simple on a connected grid). -/
theorem pipeline_spectrum_real (rnd : ℝ → ℝ) (kB NA T D : ℝ) (s : SubGrids ℝ) (hv : Valid s) (hp : Positive s)
    (E : List ℝ) (hD : 0 < D) (hcap : BelowCap rnd E (s.nP * s.nB)) :
    let n := s.nP * s.nB
    let Q := pipelineQ Real.exp rnd kB NA T D s E
    let π := piReal kB NA T s E
    (∀ (u v : Nat → ℝ) (a b : ℝ),
        (∀ i < n, ∑ j ∈ Finset.range n, Q i j * u j = a * u i - b * v i) →
        (∀ i < n, ∑ j ∈ Finset.range n, Q i j * v j = b * u i + a * v i) →
        ((∃ i < n, u i ≠ 0) ∨ (∃ i < n, v i ≠ 0)) → b = 0)
    ∧ (∀ (f : Nat → ℝ) (lam : ℝ), (∀ i < n, ∑ j ∈ Finset.range n, Q i j * f j = lam * f i) →
        (∃ i < n, f i ≠ 0) → lam ≤ 0)
    ∧ (∀ i < n, ∑ j ∈ Finset.range n, Q i j * 1 = 0)
    ∧ (∀ j < n, ∑ i ∈ Finset.range n, π i * Q i j = 0)
    ∧ (AdjConnected s → ∀ x : Nat → ℝ, (∀ j < n, ∑ i ∈ Finset.range n, x i * Q i j = 0) →
        ∀ i < n, ∀ j < n, x i * π j = x j * π i) := by
  have h := pipeline_spectrum Real.exp rnd kB NA T D s hv hp E Real.exp_add Real.exp_zero Real.exp_pos hD hcap
  simp only [pipelinePi_real] at h
  exact h

/-- the pattern clause over ℝ -/
theorem pipeline_pattern_real (rnd : ℝ → ℝ) (kB NA T D : ℝ) (s : SubGrids ℝ) (hv : Valid s) (E : List ℝ)
    (hD : D ≠ 0) {i j : Nat} (hi : i < s.nP * s.nB) (hij : i ≠ j) :
    pipelineQ Real.exp rnd kB NA T D s E i j ≠ 0 ↔ (i, j) ∈ idx (geomA s) :=
  pipeline_pattern Real.exp rnd kB NA T D s hv E Real.exp_ne_zero hD hi hij

end Molgri.C14
