/-
C15 — rotation-cell volumes approximate a partition of rotation space.

Property theorems about `Molgri.CellVol` (the model of `AbstractVoronoi.get_reduced_vertices_regions`,
`_additional_points_per_cell`, `get_convex_hulls`, `get_voronoi_volumes`, `HalfRotobjVoronoi._get_upper_indices` /
`get_voronoi_volumes`, `MikroVoronoi.get_voronoi_volumes` and the `N ≥ 4` dispatch of `gen_grid`).
Quantifiers: every scalar field `K` (linearly ordered), every grid, every output of scipy's `SphericalVoronoi`
(`verts`, `regions`), every helper-point array, every hull-area function `hull` (qhull is a parameter).

NOT provable with this technique, hence NOT claimed here (they live only in the Monte-Carlo oracle of
`harness/props/c15.py`): the two tolerance bands of the property —
  OPEN  `|Σ_i vol_i / π² − 1| ≤ 0.12`
  OPEN  `|vol_i − μ(cell_i)| ≤ 0.30 · μ(cell_i)` for every cell
(statements about the surface area of qhull's hull of a pseudo-random point cloud against the Haar measure), and
positivity of a hull area itself (a hypothesis of `volumes_positive`).
-/
import Molgri.Lemmas.CellVolume

namespace Molgri.C15
open Molgri.CellVol

set_option linter.unusedSectionVars false
set_option linter.unnecessarySeqFocus false
variable {K : Type} [Field K] [LinearOrder K] [IsStrictOrderedRing K]

/-! ## a concrete instance (used by the non-vacuity examples below)

The model does not depend on the dimension: a "rotation grid" on the circle with `N = 4`, its double cover, a diagram
with nine vertices (the last one repeats the first, so `get_reduced_vertices_regions` has something to do), eight helper
points (one of them the zero vector) and a stand-in for qhull that returns the number of rows it was given. -/

def exG : List (List Rat) := [[1, 0], [4/5, 3/5], [3/5, 4/5], [0, 1]]
def exV : List (List Rat) := [[1, 1], [1, 2], [2, 1], [-1, 1], [-1, -1], [-1, -2], [-2, -1], [1, -1], [1, 1]]
def exR : List (List Nat) := [[0, 1], [1, 2], [2, 3], [3, 4], [4, 5], [5, 6], [6, 7], [7, 8]]
def exH : List (List Rat) := [[2, 1], [1, 1], [0, 3], [-1, 5], [-1, -1], [1, -3], [0, 0], [5, 1]]
def exHull (rows : List (List Rat)) : Rat := rows.length
def exTol : Rat := 1/100000000
def exRtol : Rat := 1/100000

/-- the eight hull inputs of the instance: cell 0 gets helper points 6 (the zero vector: an exact tie of all keys,
resolved to index 0) and 7; the repeated vertex 8 is re-indexed to 0; cells 2, 4, 6 have no helper point -/
example : hullInputs exTol exRtol true (exG ++ exG.map neg) exV exR (some exH) = .ok
    [[.helper 6, .helper 7, .vertex 0, .vertex 1], [.helper 0, .helper 1, .vertex 1, .vertex 2], [.vertex 2, .vertex 3],
     [.helper 2, .helper 3, .vertex 3, .vertex 4], [.vertex 4, .vertex 5], [.helper 4, .vertex 5, .vertex 6],
     [.vertex 6, .vertex 7], [.helper 5, .vertex 7, .vertex 0]] := by decide +kernel

example : fullVolumes exTol exRtol exHull (exG ++ exG.map neg) exV exR (some exH) = .ok [2, 2, 1, 2, 1, 3/2, 1, 3/2] := by
  decide +kernel

example : rotationVolumes (355/113) exTol exTol exRtol exHull 4 (exG ++ exG.map neg) exV exR exH = .ok [2, 2, 1, 2] := by
  decide +kernel

/-- three points: the equal share `π²/3` with the stand-in `π = 3` -/
example : rotationVolumes 3 exTol exTol exRtol exHull 3 (exG.take 3 ++ (exG.take 3).map neg) exV exR exH = .ok [3, 3, 3] := by
  decide +kernel

/-! ## helper points are assigned to the nearest centre -/

/-- *"convex hull of cell vertices plus assigned helper points"* — the assigned centre is the one of smallest cosine
distance `1 − u·c/(‖u‖‖c‖)` (scipy's `metric="cos"`), ties resolved to the lowest index like `np.argmin`:
for every choice of the norms (`nrm c > 0`, `nrm c² = ‖c‖²`, `nu = ‖u‖ > 0`) no centre has a smaller cosine distance
and every centre with a lower index has a strictly larger one. -/
theorem assignment_minimises_cosine_distance (C : List (List K)) (u : List K) (hne : C ≠ [])
    (nrm : List K → K) (hnrm : ∀ c ∈ C, 0 < nrm c ∧ nrm c * nrm c = normSq c) (nu : K) (hnu : 0 < nu) :
    ∃ cr, C[assignOne (withNorms C) u]? = some cr ∧
      (∀ (j : Nat) c, C[j]? = some c → 1 - dot u cr / (nu * nrm cr) ≤ 1 - dot u c / (nu * nrm c)) ∧
      (∀ (j : Nat) c, j < assignOne (withNorms C) u → C[j]? = some c →
        1 - dot u cr / (nu * nrm cr) < 1 - dot u c / (nu * nrm c)) := by
  have hpos : ∀ c ∈ C, 0 < normSq c := fun c hc => by
    rw [← (hnrm c hc).2]; exact mul_pos (hnrm c hc).1 (hnrm c hc).1
  rcases assignOne_spec C u hne hpos with ⟨cr, h1, h2, h3⟩
  have hcr : cr ∈ C := List.mem_of_getElem? h1
  refine ⟨cr, h1, ?_, ?_⟩
  · intro j c hj
    have hc : c ∈ C := List.mem_of_getElem? hj
    have := (ckey_le_iff u c cr (hnrm c hc).1 (hnrm c hc).2 (hnrm cr hcr).1 (hnrm cr hcr).2).mp (h2 j c hj)
    have e : ∀ d n : K, d / (nu * n) = d / n / nu := fun d n => by rw [div_div, mul_comm]
    rw [e, e]
    have := div_le_div_of_nonneg_right this hnu.le
    linarith
  · intro j c hlt hj
    have hc : c ∈ C := List.mem_of_getElem? hj
    have := (ckey_lt_iff u c cr (hnrm c hc).1 (hnrm c hc).2 (hnrm cr hcr).1 (hnrm cr hcr).2).mp (h3 j c hlt hj)
    have e : ∀ d n : K, d / (nu * n) = d / n / nu := fun d n => by rw [div_div, mul_comm]
    rw [e, e]
    have := div_lt_div_of_pos_right this hnu
    linarith

example : assignOne (withNorms [[(1 : Rat), 0], [0, 1], [-1, 0]]) [1, 3] = 1 := by decide +kernel

/-- For unit centres (a rotation grid) the assigned centre is the **nearest** one in Euclidean distance, i.e. the
helper point lies in the Voronoi cell of the centre it is assigned to; ties go to the lowest index. -/
theorem assignment_is_nearest (C : List (List K)) (u : List K) (hne : C ≠ [])
    (hunit : ∀ c ∈ C, normSq c = 1) (hlen : ∀ c ∈ C, u.length = c.length) :
    ∃ cr, C[assignOne (withNorms C) u]? = some cr ∧
      (∀ (j : Nat) c, C[j]? = some c → dot u c ≤ dot u cr ∧ distSq u cr ≤ distSq u c) ∧
      (∀ (j : Nat) c, j < assignOne (withNorms C) u → C[j]? = some c → dot u c < dot u cr ∧ distSq u cr < distSq u c) := by
  have hpos : ∀ c ∈ C, 0 < normSq c := fun c hc => by rw [hunit c hc]; exact one_pos
  rcases assignOne_spec C u hne hpos with ⟨cr, h1, h2, h3⟩
  have hcr : cr ∈ C := List.mem_of_getElem? h1
  have one : (0 : K) < 1 := one_pos
  refine ⟨cr, h1, ?_, ?_⟩
  · intro j c hj
    have hc : c ∈ C := List.mem_of_getElem? hj
    have := (ckey_le_iff u c cr one (by rw [hunit c hc]; ring) one (by rw [hunit cr hcr]; ring)).mp (h2 j c hj)
    rw [div_one, div_one] at this
    refine ⟨this, ?_⟩
    rw [distSq_eq u cr (hlen cr hcr), distSq_eq u c (hlen c hc), hunit c hc, hunit cr hcr]
    linarith
  · intro j c hlt hj
    have hc : c ∈ C := List.mem_of_getElem? hj
    have := (ckey_lt_iff u c cr one (by rw [hunit c hc]; ring) one (by rw [hunit cr hcr]; ring)).mp (h3 j c hlt hj)
    rw [div_one, div_one] at this
    refine ⟨this, ?_⟩
    rw [distSq_eq u cr (hlen cr hcr), distSq_eq u c (hlen c hc), hunit c hc, hunit cr hcr]
    linarith

/-- *"the set of rotations nearer to that grid rotation than to any other"* — on a double cover `G ++ −G` of unit
quaternions the centre a helper point `u` is assigned to realises the rotation distance: `u·c ≥ |u·g|` for every grid
rotation `g`, i.e. `u` (as a rotation) is at least as near to the assigned grid rotation as to any other one. -/
theorem helper_lies_in_rotation_cell (G : List (List K)) (u : List K) (hne : G ≠ [])
    (hunit : ∀ g ∈ G, normSq g = 1) :
    ∃ cr, (G ++ G.map neg)[assignOne (withNorms (G ++ G.map neg)) u]? = some cr ∧ ∀ g ∈ G, |dot u g| ≤ dot u cr := by
  have hunit' : ∀ c ∈ G ++ G.map neg, normSq c = 1 := by
    intro c hc
    rcases List.mem_append.mp hc with h | h
    · exact hunit c h
    · rcases List.mem_map.mp h with ⟨g, hg, rfl⟩
      rw [normSq_neg]; exact hunit g hg
  have hpos : ∀ c ∈ G ++ G.map neg, 0 < normSq c := fun c hc => by rw [hunit' c hc]; exact one_pos
  rcases assignOne_spec (G ++ G.map neg) u (by simpa using hne) hpos with ⟨cr, h1, h2, _⟩
  have hcr : cr ∈ G ++ G.map neg := List.mem_of_getElem? h1
  have one : (0 : K) < 1 := one_pos
  have key : ∀ c ∈ G ++ G.map neg, dot u c ≤ dot u cr := by
    intro c hc
    rcases List.getElem?_of_mem hc with ⟨j, hj⟩
    have := (ckey_le_iff u c cr one (by rw [hunit' c hc]; ring) one (by rw [hunit' cr hcr]; ring)).mp (h2 j c hj)
    rwa [div_one, div_one] at this
  refine ⟨cr, h1, ?_⟩
  intro g hg
  have a := key g (List.mem_append_left _ hg)
  have b := key (neg g) (List.mem_append_right _ (List.mem_map.mpr ⟨g, hg, rfl⟩))
  rw [dot_neg] at b
  exact abs_le.mpr ⟨by linarith, a⟩

example : exG ≠ [] ∧ ∀ g ∈ exG, normSq g = 1 := by decide +kernel

example : (∀ c ∈ [[(1 : Rat), 0, 0, 0], [0, 1, 0, 0], [-1, 0, 0, 0], [0, -1, 0, 0]], normSq c = 1) := by decide +kernel

/-- *"helper points assigned"* — every helper point goes to exactly one cell, the one `np.argmin` selected:
the rows of cell `i` (boolean mask `belongings == i`) are exactly the helper points whose assignment is `i`. -/
theorem helper_in_exactly_one_cell (C helpers : List (List K)) (h : Nat) (u : List K) (hu : helpers[h]? = some u)
    (i : Nat) :
    (h, u) ∈ cellHelpers helpers (helpers.map (assignOne (withNorms C))) i ↔ i = assignOne (withNorms C) u := by
  rw [mem_cellHelpers, List.getElem?_map, hu]
  simp only [true_and, Option.map_some, Option.some.injEq]
  exact eq_comm

example : (exH)[7]? = some [5, 1] ∧
    (7, [5, 1]) ∈ cellHelpers exH (exH.map (assignOne (withNorms (exG ++ exG.map neg)))) 0 := by decide +kernel

/-- The assignment never points outside the list of centres. -/
theorem assignment_in_range (C : List (List K)) (u : List K) (hne : C ≠ []) (hpos : ∀ c ∈ C, 0 < normSq c) :
    assignOne (withNorms C) u < C.length := by
  rcases assignOne_spec C u hne hpos with ⟨cr, h1, _, _⟩
  exact (List.getElem?_eq_some_iff.mp h1).1

/-! ## what is handed to qhull -/

/-- *"convex hull of cell vertices plus assigned helper points"* — the rows of the array of cell `i` are the cell's
(reduced) vertices and, when the cell has a helper point with a non-zero coordinate, exactly its helper points. -/
theorem hull_input_spec (including : Bool) (helpers : List (List K)) (asg : List Nat) (i : Nat) (region : List Nat)
    (r : Ref) :
    r ∈ hullInput including helpers asg i region ↔
      (∃ v ∈ region, r = Ref.vertex v) ∨
      (including = true ∧ anyNonzero (cellHelpers helpers asg i) = true ∧
        ∃ h u, helpers[h]? = some u ∧ asg[h]? = some i ∧ r = Ref.helper h) := by
  unfold hullInput
  by_cases hc : (including && anyNonzero (cellHelpers helpers asg i)) = true
  · simp only [hc, if_true, List.mem_append, List.mem_map]
    rw [Bool.and_eq_true] at hc
    constructor
    · rintro (⟨⟨h, u⟩, hm, rfl⟩ | ⟨v, hv, rfl⟩)
      · exact Or.inr ⟨hc.1, hc.2, h, u, (mem_cellHelpers.mp hm).1, (mem_cellHelpers.mp hm).2, rfl⟩
      · exact Or.inl ⟨v, hv, rfl⟩
    · rintro (⟨v, hv, rfl⟩ | ⟨_, _, h, u, h1, h2, rfl⟩)
      · exact Or.inr ⟨v, hv, rfl⟩
      · exact Or.inl ⟨(h, u), mem_cellHelpers.mpr ⟨h1, h2⟩, rfl⟩
  · simp only [hc, Bool.false_eq_true, if_false, List.mem_map]
    constructor
    · rintro ⟨v, hv, rfl⟩; exact Or.inl ⟨v, hv, rfl⟩
    · rintro (⟨v, hv, rfl⟩ | ⟨h1, h2, _⟩)
      · exact ⟨v, hv, rfl⟩
      · exact absurd (by rw [h1, h2]; rfl) hc

example : (exG ++ exG.map neg) ≠ [] ∧ ∀ c ∈ exG ++ exG.map neg, 0 < normSq c := by decide +kernel

/-- `get_convex_hulls` as a whole: with at least one centre, the array of cell `i` is built from the `i`-th reduced
region and the `np.argmin` assignment of **all** helper points against **all** centres (for the rotation grid: the
`2N` centres of the double cover). -/
theorem hull_inputs_cellwise (atol rtol : K) (C V : List (List K)) (R : List (List Nat)) (H : List (List K))
    (hne : C ≠ []) (inputs : List (List Ref)) (h : hullInputs atol rtol true C V R (some H) = .ok inputs) :
    ∃ rr, reducedRegions atol rtol V R = .ok rr ∧ inputs.length = rr.length ∧
      ∀ (i : Nat) region, rr[i]? = some region →
        inputs[i]? = some (hullInput true H (H.map (assignOne (withNorms C))) i region) := by
  unfold hullInputs hullInputsAsg at h
  cases hr : reducedRegions atol rtol V R with
  | error e => rw [hr] at h; cases h
  | ok rr =>
    have ha : assign C H = .ok (H.map (assignOne (withNorms C))) := by
      unfold assign
      have : C.isEmpty = false := by cases C with
        | nil => exact absurd rfl hne
        | cons _ _ => rfl
      rw [this]; rfl
    rw [hr] at h
    simp only [ha, bind, Except.bind, if_true, pure, Except.pure] at h
    cases h
    refine ⟨rr, rfl, by simp, ?_⟩
    intro i region hi
    rw [List.getElem?_map, List.getElem?_zipIdx, hi]
    simp

/-- `get_reduced_vertices_regions`: the reduced vertex array has no repeated row and the same rows as scipy's; with
non-negative tolerances the re-indexing never fails, and every vertex number of every region is replaced by the first
reduced row that `np.isclose` identifies with the original vertex. -/
theorem reduced_regions_sound {atol rtol : K} (h0 : 0 ≤ atol) (h1 : 0 ≤ rtol) (vs : List (List K))
    (regions : List (List Nat)) (hreg : ∀ region ∈ regions, ∀ el ∈ region, el < vs.length) :
    (reducedVertices vs).Nodup ∧ (∀ v, v ∈ reducedVertices vs ↔ v ∈ vs) ∧
    ∃ rr, reducedRegions atol rtol vs regions = .ok rr ∧
      List.Forall₂ (List.Forall₂ (RegionEntryOk atol rtol vs)) regions rr :=
  ⟨reducedVertices_nodup vs, mem_reducedVertices vs, reducedRegions_spec h0 h1 vs regions hreg⟩

example : reducedRegions (1/100000000 : Rat) (1/100000) [[1, 0], [0, 1], [1, 0], [1, 1/1000000000]] [[0, 1], [2, 3, 1]]
    = .ok [[0, 1], [0, 0, 1]] := by decide +kernel

/-! ## the volumes -/

/-- *"half the hull surface measure"* — every cell volume of the full computation is `hull.area / 2` of the array
built for that cell, in the order of the centres. -/
theorem volume_is_half_hull_area (atol rtol : K) (hull : List (List K) → K) (C V : List (List K))
    (R : List (List Nat)) (H : Option (List (List K))) (rowss : List (List (List K)))
    (h : hullRows atol rtol C V R H = .ok rowss) :
    fullVolumes atol rtol hull C V R H = .ok (rowss.map fun rows => hull rows / 2) := by
  unfold fullVolumes volumesOfAreas
  rw [h]
  simp only [bind, Except.bind, pure, Except.pure, List.map_map, Nat.cast_ofNat]
  rfl

example : hullRows exTol exRtol (exG ++ exG.map neg) exV exR (some exH) = .ok
    [[[0, 0], [5, 1], [1, 1], [1, 2]], [[2, 1], [1, 1], [1, 2], [2, 1]], [[2, 1], [-1, 1]],
     [[0, 3], [-1, 5], [-1, 1], [-1, -1]], [[-1, -1], [-1, -2]], [[-1, -1], [-1, -2], [-2, -1]],
     [[-2, -1], [1, -1]], [[1, -3], [1, -1], [1, 1]]] := by decide +kernel

/-- one volume per Voronoi region -/
theorem fullVolumes_length (atol rtol : K) (hull : List (List K) → K) (C V : List (List K))
    (R : List (List Nat)) (H : List (List K)) (full : List K)
    (h : fullVolumes atol rtol hull C V R (some H) = .ok full) : full.length = R.length := by
  unfold fullVolumes hullRows hullInputs hullInputsAsg at h
  cases hr : reducedRegions atol rtol V R with
  | error e => rw [hr] at h; cases h
  | ok rr =>
    have hrl : rr.length = R.length := by
      unfold reducedRegions at hr
      cases ho : old2new atol rtol V with
      | error e => rw [ho] at hr; cases hr
      | ok o2n =>
        rw [ho] at hr
        exact mapM_ok_length _ hr
    rw [hr] at h
    cases ha : assign C H with
    | error e => simp only [ha, bind, Except.bind, if_true] at h; cases h
    | ok asg =>
      simp only [ha, bind, Except.bind, if_true, pure, Except.pure] at h
      split at h
      · cases h
      · rename_i rowss hrows
        cases h
        have := mapM_ok_length _ hrows
        simp only [volumesOfAreas, List.length_map, List.length_zipIdx] at this ⊢
        rw [this, hrl]

/-- A canonical half grid: every row is in the upper hemisphere (by `q_in_upper_sphere`) and its antipode is not. -/
def CanonHalf (tol : K) (G : List (List K)) : Prop := ∀ g ∈ G, upper tol g = true ∧ upper tol (neg g) = false

/-- Rows whose leading coordinates lie in `[0, tol]` followed by one above `tol` form a canonical half
(this is what `hemisphere_quaternion_set` / `get_half_of_hypercube` deliver for unit quaternions). -/
theorem canonHalf_of_strictUpper {tol : K} (ht : 0 ≤ tol) (G : List (List K)) (h : ∀ g ∈ G, StrictUpper tol g) :
    CanonHalf tol G := fun g hg => strictUpper_upper ht g (h g hg)

/-- *"are the first N of the 2N double-cover volumes"* — for a double cover `G ++ −G` of a canonical half with
`N = |G| ≥ 4` rows the reported volumes are the first `N` entries of the `2N` volumes of the full computation,
for every Voronoi diagram, helper-point array and hull-area function. -/
theorem volumes_first_N_of_2N (pi tol atol rtol : K) (hull : List (List K) → K) (G V : List (List K))
    (R : List (List Nat)) (H : List (List K)) (hG : CanonHalf tol G) (hN : 4 ≤ G.length)
    (hR : R.length = 2 * G.length) (full : List K)
    (hfull : fullVolumes atol rtol hull (G ++ G.map neg) V R (some H) = .ok full) :
    full.length = 2 * G.length ∧
    rotationVolumes pi tol atol rtol hull G.length (G ++ G.map neg) V R H = .ok (full.take G.length) := by
  have hlen := fullVolumes_length atol rtol hull _ V R H full hfull
  rw [hR] at hlen
  refine ⟨hlen, ?_⟩
  have hd : dispatch 4 G.length = .halfRotobj := by
    unfold dispatch; simp; omega
  unfold rotationVolumes
  rw [hd]
  simp only [hfull, bind, Except.bind]
  unfold halfVolumes
  rw [upperIdx_double tol G hG, List.range_eq_range', mapM_range'_get full G.length 0 (by omega)]
  simp

example : CanonHalf exTol exG ∧ 4 ≤ exG.length ∧ exR.length = 2 * exG.length := by
  refine ⟨?_, by decide, by decide⟩
  intro g hg
  revert g
  decide +kernel

example : CanonHalf (1/100000000 : Rat) [[0, 0, 0, 1], [0, 1/2, -1/2, 0], [3/5, -4/5, 0, 0], [0, 0, 1, 0]] :=
  canonHalf_of_strictUpper (by norm_num) _ (by
    intro g hg
    simp only [List.mem_cons, List.not_mem_nil, or_false] at hg
    rcases hg with rfl | rfl | rfl | rfl <;> simp [StrictUpper] <;> norm_num)

/-- The hypothesis `CanonHalf` cannot be dropped: within the tolerance of `np.allclose` both a row and its antipode
can pass `q_in_upper_sphere`, and then more than `N` indices are selected (witness over `Int`, `tol = 10`). -/
theorem noncanonical_half_selects_both :
    upperIdx (10 : Int) ([[1, -1000, 0, 0]] ++ [[1, -1000, 0, 0]].map neg) = [0, 1] := by decide +kernel

/- OPEN (not provable here: positivity of a hull area is a fact about qhull's output)
     theorem volumes_positive : rotationVolumes … = .ok vols → ∀ v ∈ vols, 0 < v          -- for scipy's `hull`
   proved below with the assumption about qhull made explicit: -/
/-- *"the N cell volumes are positive"* — provided qhull returns a positive area for every array, every reported
volume is positive (`N ≥ 4`; for `N < 4` see `equal_share_rotations`). -/
theorem volumes_positive_partial (pi tol atol rtol : K) (hull : List (List K) → K) (hpos : ∀ rows, 0 < hull rows)
    (N : Nat) (hN : 4 ≤ N) (grid V : List (List K)) (R : List (List Nat)) (H : List (List K)) (vols : List K)
    (h : rotationVolumes pi tol atol rtol hull N grid V R H = .ok vols) : ∀ v ∈ vols, 0 < v := by
  have hd : dispatch 4 N = .halfRotobj := by
    unfold dispatch; simp; omega
  unfold rotationVolumes at h
  rw [hd] at h
  simp only at h
  cases hr : hullRows atol rtol grid V R (some H) with
  | error e =>
    unfold fullVolumes at h; rw [hr] at h; cases h
  | ok rowss =>
    rw [volume_is_half_hull_area atol rtol hull grid V R (some H) rowss hr] at h
    simp only [bind, Except.bind] at h
    unfold halfVolumes at h
    have hf := (mapM_ok_iff _ _ _).mp h
    intro v hv
    rcases List.mem_iff_getElem.mp hv with ⟨n, hn, rfl⟩
    have hn' : n < (upperIdx tol grid).length := by rw [hf.length_eq]; exact hn
    have hget := List.Forall₂.get hf hn' hn
    simp only [List.get_eq_getElem] at hget
    unfold getIdx at hget
    cases hv' : (rowss.map (fun rows => hull rows / 2))[(upperIdx tol grid)[n]]? with
    | none => rw [hv'] at hget; cases hget
    | some v' =>
      rw [hv'] at hget
      have hm : v' ∈ rowss.map (fun rows => hull rows / 2) := List.mem_of_getElem? hv'
      rcases List.mem_map.mp hm with ⟨rows, _, hrows⟩
      have hpv : 0 < v' := by rw [← hrows]; exact div_pos (hpos rows) two_pos
      cases hget
      exact hpv

/-! ## tiny grids -/

/-- *"For fewer than four points the documented equal-share estimate"* is used exactly then: the dispatch of
`gen_grid` attaches `MikroVoronoi` iff `N < 4` (rotation grids and direction grids). -/
theorem mikro_threshold (N : Nat) :
    (dispatch 4 N = .mikro ↔ N < 4) ∧ (dispatch 3 N = .mikro ↔ N < 4) ∧
    (4 ≤ N → dispatch 4 N = .halfRotobj ∧ dispatch 3 N = .rotobj) := by
  unfold dispatch
  refine ⟨?_, ?_, ?_⟩
  · by_cases h : N ≥ 4 <;> simp [h] <;> omega
  · by_cases h : N ≥ 4 <;> simp [h] <;> omega
  · intro h; simp [h]

/-- *"the documented equal-share estimate pi^2/N"* — for a double cover of a canonical half with `1 ≤ N < 4` rows
every reported volume is `π²/N`, there are `N` of them and they sum to `π²` exactly (over a field). -/
theorem equal_share_rotations (pi tol atol rtol : K) (hull : List (List K) → K) (G V : List (List K))
    (R : List (List Nat)) (H : List (List K)) (hG : CanonHalf tol G) (h1 : 1 ≤ G.length) (h4 : G.length < 4) :
    rotationVolumes pi tol atol rtol hull G.length (G ++ G.map neg) V R H
      = .ok (List.replicate G.length (pi * pi / (G.length : K))) ∧
    (List.replicate G.length (pi * pi / (G.length : K))).sum = pi * pi := by
  have hd : dispatch 4 G.length = .mikro := (mikro_threshold G.length).1.mpr h4
  have hne : (G.length : K) ≠ 0 := by exact_mod_cast (by omega : G.length ≠ 0)
  refine ⟨?_, ?_⟩
  · unfold rotationVolumes
    rw [hd]
    simp only
    rw [upperIdx_double tol G hG, List.length_range]
    unfold mikroVolumes
    have : G.length ≠ 0 := by omega
    simp only [this, if_false, pure, Except.pure]
    simp only [show ¬ ((4 : Nat) ≠ 3 ∧ (4 : Nat) ≠ 4) by omega, show ¬ ((4 : Nat) = 3) by omega, if_false]
    congr 2
    push_cast
    field_simp
  · rw [List.sum_replicate, nsmul_eq_mul]
    field_simp

/-- *"(4*pi/N for directions)"* — a direction grid with `1 ≤ N < 4` points reports `N` times `4π/N`, summing to `4π`. -/
theorem equal_share_directions (pi : K) (N : Nat) (h1 : 1 ≤ N) (h4 : N < 4) :
    directionVolumesSmall pi N = .ok (List.replicate N (4 * pi / (N : K))) ∧
    (List.replicate N (4 * pi / (N : K))).sum = 4 * pi := by
  have hd : dispatch 3 N = .mikro := (mikro_threshold N).2.1.mpr h4
  have hne : (N : K) ≠ 0 := by exact_mod_cast (by omega : N ≠ 0)
  refine ⟨?_, ?_⟩
  · unfold directionVolumesSmall
    rw [hd]
    simp only
    unfold mikroVolumes
    have : N ≠ 0 := by omega
    simp only [this, if_false, pure, Except.pure]
    simp only [show ¬ ((3 : Nat) ≠ 3 ∧ (3 : Nat) ≠ 4) by omega, if_true, if_false]
    congr 2
  · rw [List.sum_replicate, nsmul_eq_mul]
    field_simp

/-- `MikroVoronoi` itself: wrong dimension ⇒ `AssertionError`, no point ⇒ `ZeroDivisionError`. -/
theorem mikro_errors (pi : K) :
    (∀ dims N, dims ≠ 3 → dims ≠ 4 → mikroVolumes pi dims N = .error "AssertionError") ∧
    mikroVolumes pi 4 0 = .error "ZeroDivisionError" ∧ mikroVolumes pi 3 0 = .error "ZeroDivisionError" := by
  refine ⟨?_, rfl, rfl⟩
  intro dims N h3 h4
  unfold mikroVolumes
  simp [h3, h4]
  rfl

/-! ## the driver runs the model -/

/-- The operation the correspondence check executes (`rotationVolumesOfAreas`, hull areas supplied by scipy on the
arrays the model produced) is `rotationVolumes` with `hull` := scipy's answers. -/
theorem rotationVolumes_eq_ofAreas (pi tol atol rtol : K) (hull : List (List K) → K) (N : Nat)
    (grid V : List (List K)) (R : List (List Nat)) (H : List (List K)) (rowss : List (List (List K)))
    (h : hullRows atol rtol grid V R (some H) = .ok rowss) :
    rotationVolumes pi tol atol rtol hull N grid V R H
      = rotationVolumesOfAreas pi tol N grid (rowss.map hull) := by
  unfold rotationVolumes rotationVolumesOfAreas fullVolumes
  rw [h]
  rfl

end Molgri.C15
