/-
C16 — radial grids parse to sorted Ångström radii with interleaved shell boundaries.

Property theorems about `Molgri.Trans` (the model of `molgri/space/translations.py`).  Quantifiers: every text
`s : List Char` (so every accepted form, every spelling, every amount of whitespace), every list of radii.
`parseTrans s` is `TranslationParser(s).get_trans_grid()`, `transValues s` the numbers (in nm, in the order
written / generated) the text denotes before the sort.
-/
import Molgri.Lemmas.Trans

namespace Molgri.C16
open Molgri.Trans

/-! ### every accepted form: ascending, non-negative, ×10, negatives rejected -/

/-- `parseTrans` = dispatch, then sort / assertion / unit conversion; errors of the dispatch pass through. -/
theorem parse_ok_iff (s : List Char) (g : List Rat) :
    parseTrans s = .ok g ↔ ∃ v, transValues s = .ok v ∧ (∀ x ∈ v, 0 ≤ x) ∧ g = (sortAsc v).map (· * 10) := by
  unfold parseTrans
  cases h : transValues s with
  | error e => simp [bind, Except.bind]
  | ok v =>
    simp only [bind, Except.bind]
    rw [finish_ok_iff]
    constructor
    · rintro ⟨h1, h2⟩; exact ⟨v, rfl, h1, h2⟩
    · rintro ⟨v', hv, h1, h2⟩; cases hv; exact ⟨h1, h2⟩

/-- "Every accepted textual form … yields … distances … in ascending order": whatever the text (list, tuple, bare
number, nested list, linspace, range/arange, any parameters — descending ones included), an accepted grid is sorted. -/
theorem trans_sorted (s : List Char) (g : List Rat) (h : parseTrans s = .ok g) : g.Pairwise (· ≤ ·) := by
  obtain ⟨v, _, _, rfl⟩ := (parse_ok_iff s g).mp h
  exact sorted_map_mul10 (sortAsc_sorted v)

/-- An accepted grid has no negative distance. -/
theorem trans_nonneg (s : List Char) (g : List Rat) (h : parseTrans s = .ok g) : ∀ x ∈ g, 0 ≤ x := by
  obtain ⟨v, _, hv, rfl⟩ := (parse_ok_iff s g).mp h
  intro x hx
  simp only [List.mem_map] at hx
  obtain ⟨y, hy, rfl⟩ := hx
  have := hv y (mem_sortAsc.mp hy)
  linarith

/-- "… yields the mathematically intended distances multiplied by ten (nm to Angstrom) in ascending order": if the
text denotes the non-negative numbers `v` (in any order), the grid is **the** ascending arrangement of `10·v`
(same elements with multiplicity, sorted — and any sorted list with these elements is this grid). -/
theorem trans_values (s : List Char) (v : List Rat) (hv : transValues s = .ok v) (hpos : ∀ x ∈ v, 0 ≤ x) :
    ∃ g, parseTrans s = .ok g ∧ g.Perm (v.map (· * 10)) ∧ g.Pairwise (· ≤ ·) ∧
      ∀ g', g'.Perm (v.map (· * 10)) → g'.Pairwise (· ≤ ·) → g' = g := by
  refine ⟨(sortAsc v).map (· * 10), (parse_ok_iff s _).mpr ⟨v, hv, hpos, rfl⟩, (sortAsc_perm v).map _,
    sorted_map_mul10 (sortAsc_sorted v), ?_⟩
  intro g' hp hs
  exact eq_of_perm_of_sorted (hp.trans ((sortAsc_perm v).map _).symm) hs (sorted_map_mul10 (sortAsc_sorted v))

/-- "… and negative distances are rejected": one negative number anywhere in the denoted values makes the
constructor raise `AssertionError`. -/
theorem trans_neg_rejected (s : List Char) (v : List Rat) (hv : transValues s = .ok v) (hneg : ∃ x ∈ v, x < 0) :
    parseTrans s = .error .assertionError := by
  unfold parseTrans
  rw [hv]
  simp only [bind, Except.bind]
  exact finish_err_iff.mpr ⟨hneg, rfl⟩

/-- Conversely the only error the pipeline adds to those of the dispatch is that assertion. -/
theorem trans_error_iff (s : List Char) (e : Err) :
    parseTrans s = .error e ↔
      transValues s = .error e ∨ ∃ v, transValues s = .ok v ∧ (∃ x ∈ v, x < 0) ∧ e = .assertionError := by
  unfold parseTrans
  cases h : transValues s with
  | error e' => simp [bind, Except.bind]
  | ok v =>
    simp only [bind, Except.bind, finish_err_iff]
    constructor
    · rintro ⟨h1, h2⟩; exact Or.inr ⟨v, rfl, h1, h2⟩
    · rintro (h | ⟨v', hv', h1, h2⟩)
      · cases h
      · cases hv'; exact ⟨h1, h2⟩

/-- "a list or tuple in any order": two texts denoting the same numbers in different orders (or nestings) give the
same grid — and the same outcome altogether. -/
theorem trans_order_irrelevant (s₁ s₂ : List Char) (v₁ v₂ : List Rat) (h₁ : transValues s₁ = .ok v₁)
    (h₂ : transValues s₂ = .ok v₂) (hp : v₁.Perm v₂) : parseTrans s₁ = parseTrans s₂ := by
  unfold parseTrans
  rw [h₁, h₂]
  simp only [bind, Except.bind]
  unfold finish
  rw [sortAsc_congr hp]

/-- "The grid identifier depends only on the resulting array of distances, not on the syntax that produced it." -/
theorem hash_congr {H : Type} (md5 : List Rat → H) (s₁ s₂ : List Char) (h : parseTrans s₁ = parseTrans s₂) :
    gridId md5 s₁ = gridId md5 s₂ := by
  unfold gridId; rw [h]

/-! ### the dispatch: `"linspace"` is tested first, then `"range"` (so `arange` too), else a literal -/

theorem dispatch_linspace (s : List Char) (h : isInfix "linspace".toList s = true) :
    transValues s = readWithinBrackets s >>= linspaceArgs := by
  unfold transValues; rw [if_pos h]

theorem dispatch_range (s : List Char) (h₁ : isInfix "linspace".toList s = false)
    (h₂ : isInfix "range".toList s = true) : transValues s = readWithinBrackets s >>= arangeArgs := by
  unfold transValues; rw [if_neg (by rw [h₁]; exact Bool.false_ne_true), if_pos h₂]

theorem dispatch_literal (s : List Char) (h₁ : isInfix "linspace".toList s = false)
    (h₂ : isInfix "range".toList s = false) : transValues s = literalEval s >>= npArray := by
  unfold transValues
  rw [if_neg (by rw [h₁]; exact Bool.false_ne_true), if_neg (by rw [h₂]; exact Bool.false_ne_true)]

/-! ### linspace: the arithmetic progression between the two ends, ascending whichever end comes first -/

/-- `linspace(a, b, N)` with `N ≥ 2` samples and non-negative ends, followed by the sort and the unit conversion:
radius `k` is `10·(min a b + k·|b − a|/(N−1))` — also when `a > b` (the F9 repair; before it the grid came out
descending). -/
theorem linspace_grid (a b : Num) (N : Nat) (hN : 2 ≤ N) (ha : 0 ≤ a.q) (hb : 0 ≤ b.q) :
    (linspaceArgs [a, b, ⟨(N : Rat), true⟩] >>= finish) =
      .ok (prog (10 * min a.q b.q) (10 * (|b.q - a.q| / ((N : Rat) - 1))) N) := by
  have hN1 : ((N - 1 : Nat) : Rat) = (N : Rat) - 1 := by rw [Nat.cast_sub (by omega)]; simp
  have hpos : (0 : Rat) < (N : Rat) - 1 := by
    have : (2 : Rat) ≤ (N : Rat) := by exact_mod_cast hN
    linarith
  simp only [linspaceArgs, asIndex, if_true, bind, Except.bind]
  have hnum : ((N : Rat)).num = (N : Int) := by simp
  rw [hnum, linspace_eq_prog _ _ _ _ (by omega)]
  simp only [Int.toNat_natCast, if_true, hN1]
  rw [finish_ok_iff]
  rcases le_total a.q b.q with hab | hab
  · have hd : 0 ≤ (b.q - a.q) / ((N : Rat) - 1) := div_nonneg (by linarith) hpos.le
    refine ⟨?_, ?_⟩
    · intro x hx
      obtain ⟨k, _, rfl⟩ := mem_prog.mp hx
      have : (0 : Rat) ≤ (k : Rat) := by exact_mod_cast Nat.zero_le k
      nlinarith [mul_nonneg this hd]
    · rw [sortAsc_prog_of_nonneg N hd, prog_map_mul10, min_eq_left hab, abs_of_nonneg (by linarith)]
  · have hd : (b.q - a.q) / ((N : Rat) - 1) ≤ 0 := div_nonpos_of_nonpos_of_nonneg (by linarith) hpos.le
    have hend : a.q + ((N : Rat) - 1) * ((b.q - a.q) / ((N : Rat) - 1)) = b.q := by
      field_simp; ring
    refine ⟨?_, ?_⟩
    · intro x hx
      obtain ⟨k, hk, rfl⟩ := mem_prog.mp hx
      have hk' : (k : Rat) ≤ (N : Rat) - 1 := by
        have : (k : Rat) + 1 ≤ (N : Rat) := by exact_mod_cast hk
        linarith
      have : a.q + (k : Rat) * ((b.q - a.q) / ((N : Rat) - 1)) ≥ a.q + ((N : Rat) - 1) * ((b.q - a.q) / ((N : Rat) - 1)) := by
        nlinarith
      linarith
    · rw [sortAsc_prog_of_nonpos N hd, prog_map_mul10, hend, min_eq_right hab, abs_of_nonpos (by linarith)]
      congr 1
      rw [neg_div]

/-- `num` defaults to 50; one sample is `[start]`; no sample is the empty grid (accepted by the constructor). -/
theorem linspace_defaults (a b : Num) :
    linspaceArgs [a, b] = linspaceArgs [a, b, ⟨50, true⟩] ∧
    linspaceArgs [a, b, ⟨1, true⟩] = .ok [a.q] ∧
    linspaceArgs [a, b, ⟨0, true⟩] = .ok [] := by
  refine ⟨?_, ?_, ?_⟩
  · simp [linspaceArgs, asIndex, bind, Except.bind]
  · simp [linspaceArgs, asIndex, bind, Except.bind, linspace]
  · simp [linspaceArgs, asIndex, bind, Except.bind, linspace]

/-! ### range / arange: `start + k·step` for exactly the `k` that stay before `stop`, ascending for either sign -/

/-- A positive step: the grid is `10·(a + k·s)` for exactly the `k ≥ 0` with `a + k·s < b`. -/
theorem arange_grid_pos (a b s : Rat) (hs : 0 < s) (ha : 0 ≤ a) :
    (arange a b s >>= finish) = .ok (prog (10 * a) (10 * s) (arangeLen a b s)) ∧
    ∀ k : Nat, k < arangeLen a b s ↔ a + (k : Rat) * s < b := by
  refine ⟨?_, arangeLen_spec_pos hs⟩
  rw [arange_eq_prog _ _ _ hs.ne']
  simp only [bind, Except.bind]
  rw [finish_ok_iff]
  refine ⟨?_, ?_⟩
  · intro x hx
    obtain ⟨k, _, rfl⟩ := mem_prog.mp hx
    have : (0 : Rat) ≤ (k : Rat) := by exact_mod_cast Nat.zero_le k
    nlinarith [mul_nonneg this hs.le]
  · rw [sortAsc_prog_of_nonneg _ hs.le, prog_map_mul10]

/-- A negative step (`range(5, 1, -1)`): the elements are the `a + k·s > b`, and the grid lists them upwards from the
last one generated. -/
theorem arange_grid_neg (a b s : Rat) (hs : s < 0) (hb : 0 ≤ b) :
    (arange a b s >>= finish) =
      .ok (prog (10 * (a + ((arangeLen a b s : Rat) - 1) * s)) (10 * (-s)) (arangeLen a b s)) ∧
    ∀ k : Nat, k < arangeLen a b s ↔ b < a + (k : Rat) * s := by
  refine ⟨?_, arangeLen_spec_neg hs⟩
  rw [arange_eq_prog _ _ _ hs.ne]
  simp only [bind, Except.bind]
  rw [finish_ok_iff]
  refine ⟨?_, ?_⟩
  · intro x hx
    obtain ⟨k, hk, rfl⟩ := mem_prog.mp hx
    have := (arangeLen_spec_neg hs k).mp hk
    linarith
  · rw [sortAsc_prog_of_nonpos _ hs.le, prog_map_mul10]

/-- One argument is `stop`, two are `start, stop`; a zero step raises `ZeroDivisionError`. -/
theorem arange_defaults (a b : Num) :
    arangeArgs [b] = arange 0 b.q 1 ∧ arangeArgs [a, b] = arange a.q b.q 1 ∧
    arangeArgs [a, b, ⟨0, true⟩] = .error .zeroDivisionError := by
  refine ⟨rfl, rfl, ?_⟩
  simp [arangeArgs, arange_zero_step]

/-! ### from the text itself: written lists, `linspace(…)`, `range(…)` with arbitrary blanks and spellings

`ListText`, `Item`, `DecLit` (in `Lemmas/Trans.lean`) describe how such a text is *written*: every element is
blanks · optional sign · blanks · digits [`.` digits] · blanks, elements are separated by commas, an optional
trailing comma, blanks before and after the brackets — all blanks being arbitrary runs of spaces and tabs, all digit
strings arbitrary (leading zeros, `12.`, `.5`, `1.50`). The theorems say what the *model's own reader* makes of
that text; that Python's reader does the same is what the correspondence check compares on every run. -/

/-- "a list … in any order … with arbitrary whitespace": a written list denotes exactly its numbers. -/
theorem list_text_values (t : ListText) (hv : t.Valid) : transValues t.chars = .ok (t.items.map Item.value) := by
  obtain ⟨hl, hr⟩ := no_letter_listText t hv
  rw [dispatch_literal _ (isInfix_false_of_not_mem _ _ _ hl) (isInfix_false_of_not_mem _ _ _ hr),
    literalEval_listText t hv]
  show npArray _ = _
  have : (t.items.map fun it => Val.num it.num) = (t.items.map Item.num).map Val.num := by simp
  rw [this, npArray_nums]
  simp [Item.num]

/-- "all lists of non-negative decimals in any order, with arbitrary whitespace": the grid is the ascending
arrangement of ten times the written numbers. -/
theorem list_text_grid (t : ListText) (hv : t.Valid) (hpos : ∀ it ∈ t.items, 0 ≤ it.value) :
    parseTrans t.chars = .ok ((sortAsc (t.items.map Item.value)).map (· * 10)) := by
  rw [parse_ok_iff]
  refine ⟨_, list_text_values t hv, ?_, rfl⟩
  intro x hx
  obtain ⟨it, hit, rfl⟩ := List.mem_map.mp hx
  exact hpos it hit

/-- One written negative number and the list is rejected. -/
theorem list_text_negative (t : ListText) (hv : t.Valid) (hneg : ∃ it ∈ t.items, it.value < 0) :
    parseTrans t.chars = .error .assertionError := by
  apply trans_neg_rejected _ _ (list_text_values t hv)
  obtain ⟨it, hit, h⟩ := hneg
  exact ⟨it.value, List.mem_map.mpr ⟨it, hit, rfl⟩, h⟩

/-- Two written lists with the same numbers in another order, other blanks, other spellings: same grid, same
identifier. -/
theorem list_text_order {H : Type} (md5 : List Rat → H) (t₁ t₂ : ListText) (h₁ : t₁.Valid) (h₂ : t₂.Valid)
    (hp : (t₁.items.map Item.value).Perm (t₂.items.map Item.value)) :
    parseTrans t₁.chars = parseTrans t₂.chars ∧ gridId md5 t₁.chars = gridId md5 t₂.chars := by
  have h := trans_order_irrelevant _ _ _ _ (list_text_values t₁ h₁) (list_text_values t₂ h₂) hp
  exact ⟨h, hash_congr md5 _ _ h⟩

/-- "a number, a … tuple": the same for `(a, b)`, `(a,)`, `(a)`, `()` and for the forms without any bracket
`a, b` / `a,` / `a` (a bare number) — a `TupleText` denotes exactly its numbers … -/
theorem tuple_text_values (t : TupleText) (hv : t.Valid) : transValues t.chars = .ok (t.items.map Item.value) := by
  obtain ⟨hl, hr⟩ := no_letter_tupleText t hv
  rw [dispatch_literal _ (isInfix_false_of_not_mem _ _ _ hl) (isInfix_false_of_not_mem _ _ _ hr),
    literalEval_tupleText t hv]
  exact npArray_tupleVal t

/-- … so its grid is the ascending arrangement of ten times them, and one negative number rejects it. -/
theorem tuple_text_grid (t : TupleText) (hv : t.Valid) :
    ((∀ it ∈ t.items, 0 ≤ it.value) → parseTrans t.chars = .ok ((sortAsc (t.items.map Item.value)).map (· * 10))) ∧
    ((∃ it ∈ t.items, it.value < 0) → parseTrans t.chars = .error .assertionError) := by
  constructor
  · intro hpos
    rw [parse_ok_iff]
    refine ⟨_, tuple_text_values t hv, ?_, rfl⟩
    intro x hx
    obtain ⟨it, hit, rfl⟩ := List.mem_map.mp hx
    exact hpos it hit
  · rintro ⟨it, hit, h⟩
    exact trans_neg_rejected _ _ (tuple_text_values t hv) ⟨it.value, List.mem_map.mpr ⟨it, hit, rfl⟩, h⟩

/-- A list and a tuple (or bare sequence) of the same numbers in any order: same grid, same identifier. -/
theorem list_tuple_same {H : Type} (md5 : List Rat → H) (t₁ : ListText) (t₂ : TupleText) (h₁ : t₁.Valid) (h₂ : t₂.Valid)
    (hp : (t₁.items.map Item.value).Perm (t₂.items.map Item.value)) :
    parseTrans t₁.chars = parseTrans t₂.chars ∧ gridId md5 t₁.chars = gridId md5 t₂.chars := by
  have h := trans_order_irrelevant _ _ _ _ (list_text_values t₁ h₁) (tuple_text_values t₂ h₂) hp
  exact ⟨h, hash_congr md5 _ _ h⟩

/-- "linspace(start, stop[, num])": any text that contains the word `linspace`, has no `(` before the argument list
and three written arguments `a, b, N` (`N ≥ 2` an integer literal, `a, b ≥ 0`, any blanks, anything after the `)`)
gives radius `k` = `10·(min a b + k·|b − a|/(N−1))`. -/
theorem linspace_text_grid (pfx sfx : List Char) (a b n : Item) (N : Nat) (ha : a.Valid) (hb : b.Valid) (hn : n.Valid)
    (hp : '(' ∉ pfx) (hkw : isInfix "linspace".toList (pfx ++ '(' :: (seqChars [a, b, n] ++ ')' :: sfx)) = true)
    (hN : IsCount n N) (h2 : 2 ≤ N) (ha0 : 0 ≤ a.value) (hb0 : 0 ≤ b.value) :
    parseTrans (pfx ++ '(' :: (seqChars [a, b, n] ++ ')' :: sfx)) =
      .ok (prog (10 * min a.value b.value) (10 * (|b.value - a.value| / ((N : Rat) - 1))) N) := by
  unfold parseTrans
  rw [dispatch_linspace _ hkw, readWithinBrackets_call pfx sfx [a, b, n] (by simp)
    (by intro it hit; simp at hit; rcases hit with rfl | rfl | rfl <;> assumption) hp]
  simp only [List.map_cons, List.map_nil, count_num n N hN]
  have := linspace_grid a.num b.num N h2 ha0 hb0
  simpa only [bind, Except.bind, Item.num] using this

/-- "range/arange(...)": a text containing `range` (hence also `arange`) but not `linspace`, with written arguments
`a, b, s`: for `s > 0` the grid is `10·(a + k·s)` for exactly the `k` with `a + k·s < b`; for `s < 0`
(`range(5, 1, -1)`) the same numbers `a + k·s > b`, listed upwards. -/
theorem range_text_grid (pfx sfx : List Char) (a b s : Item) (ha : a.Valid) (hb : b.Valid) (hs : s.Valid)
    (hp : '(' ∉ pfx) (hkw₁ : isInfix "linspace".toList (pfx ++ '(' :: (seqChars [a, b, s] ++ ')' :: sfx)) = false)
    (hkw₂ : isInfix "range".toList (pfx ++ '(' :: (seqChars [a, b, s] ++ ')' :: sfx)) = true) :
    (0 < s.value → 0 ≤ a.value →
      parseTrans (pfx ++ '(' :: (seqChars [a, b, s] ++ ')' :: sfx)) =
        .ok (prog (10 * a.value) (10 * s.value) (arangeLen a.value b.value s.value))) ∧
    (s.value < 0 → 0 ≤ b.value →
      parseTrans (pfx ++ '(' :: (seqChars [a, b, s] ++ ')' :: sfx)) =
        .ok (prog (10 * (a.value + ((arangeLen a.value b.value s.value : Rat) - 1) * s.value)) (10 * (-s.value))
          (arangeLen a.value b.value s.value))) := by
  have hread := readWithinBrackets_call pfx sfx [a, b, s] (by simp)
    (by intro it hit; simp at hit; rcases hit with rfl | rfl | rfl <;> assumption) hp
  constructor
  · intro hs0 ha0
    unfold parseTrans
    rw [dispatch_range _ hkw₁ hkw₂, hread]
    have := (arange_grid_pos a.value b.value s.value hs0 ha0).1
    simpa only [bind, Except.bind, Item.num, List.map_cons, List.map_nil, arangeArgs] using this
  · intro hs0 hb0
    unfold parseTrans
    rw [dispatch_range _ hkw₁ hkw₂, hread]
    have := (arange_grid_neg a.value b.value s.value hs0 hb0).1
    simpa only [bind, Except.bind, Item.num, List.map_cons, List.map_nil, arangeArgs] using this

/-! ### increments -/

/-- "The increments are the first radius followed by the positive differences": `get_increments` succeeds exactly on
non-empty, strictly increasing lists with a non-negative first radius (zero allowed since commit cae935f, as in the
parser), and then returns `r₁, r₂−r₁, r₃−r₂, …`. -/
theorem increments_spec (r inc : List Rat) :
    getIncrements r = .ok inc ↔
      ∃ r0 rs, r = r0 :: rs ∧ 0 ≤ r0 ∧ r.Pairwise (· < ·) ∧ inc = r0 :: diffs r := by
  cases r with
  | nil => simp [getIncrements_nil]
  | cons r0 rs =>
    rw [getIncrements_cons]
    constructor
    · intro h
      split at h
      · rename_i hc
        cases h
        exact ⟨r0, rs, rfl, hc.1, hc.2, rfl⟩
      · cases h
    · rintro ⟨r0', rs', heq, h0, hs, rfl⟩
      cases heq
      rw [if_pos ⟨h0, hs⟩]

/-- Element-wise reading of `increments_spec`: the first increment is the first radius (`≥ 0`), the others are the
differences, all strictly positive. -/
theorem increments_getElem (r inc : List Rat) (h : getIncrements r = .ok inc) :
    inc.length = r.length ∧ (∀ x ∈ inc.tail, 0 < x) ∧ (∀ x ∈ inc, 0 ≤ x) ∧
    (∀ (h0 : 0 < inc.length) (h0' : 0 < r.length), inc[0] = r[0]) ∧
    ∀ (k : Nat) (hk : k + 1 < inc.length) (hk' : k + 1 < r.length), inc[k + 1] = r[k + 1] - r[k] := by
  obtain ⟨r0, rs, rfl, h0, hs, rfl⟩ := (increments_spec r inc).mp h
  refine ⟨by simp [length_diffs], ?_, ?_, ?_, ?_⟩
  · intro x hx
    exact (diffs_pos_iff _).mpr hs x hx
  · intro x hx
    rcases List.mem_cons.mp hx with rfl | hx
    · exact h0
    · exact ((diffs_pos_iff _).mpr hs x hx).le
  · intro _ _; rfl
  · intro k hk hk'
    simp only [List.getElem_cons_succ]
    rw [getElem_diffs]
    rfl

/-- Everything else is rejected: the empty array with `IndexError`, anything not strictly increasing from a
non-negative first radius with `AssertionError`. -/
theorem increments_error (r : List Rat) (e : Err) :
    getIncrements r = .error e ↔
      (r = [] ∧ e = .indexError) ∨
      (∃ r0 rs, r = r0 :: rs ∧ ¬(0 ≤ r0 ∧ r.Pairwise (· < ·)) ∧ e = .assertionError) := by
  cases r with
  | nil => simp [getIncrements_nil, eq_comm]
  | cons r0 rs =>
    rw [getIncrements_cons]
    constructor
    · intro h
      split at h
      · cases h
      · rename_i hc
        cases h
        exact Or.inr ⟨r0, rs, rfl, hc, rfl⟩
    · rintro (⟨h, _⟩ | ⟨r0', rs', heq, hc, rfl⟩)
      · cases h
      · cases heq
        rw [if_neg hc]

/-- The assertion of `get_increments` before commit cae935f (`np.all(increment_grid > 0)`, the first radius
included) - kept only to state what the repair changed. -/
def preRepairAssertion (inc : List Rat) : Bool := inc.all (fun x => decide (0 < x))

/-- Finding `C16:zero_first_radius`, repaired by cae935f: a grid starting at zero (which the constructor accepts) now
has increments `0, r₂, r₃−r₂, …` and shell boundaries; the old assertion rejected every such grid. -/
theorem zero_first_radius_accepted (r1 : Rat) (rs : List Rat) (h : (0 :: r1 :: rs).Pairwise (· < ·)) (z : Bool) :
    getIncrements (0 :: r1 :: rs) = .ok (0 :: diffs (0 :: r1 :: rs)) ∧
    getBetweenRadii (0 :: r1 :: rs) z = .ok (if z then 0 :: betweenList (0 :: r1 :: rs) else betweenList (0 :: r1 :: rs)) ∧
    preRepairAssertion (0 :: diffs (0 :: r1 :: rs)) = false := by
  refine ⟨?_, getBetweenRadii_many 0 r1 rs z le_rfl h, ?_⟩
  · rw [getIncrements_cons, if_pos ⟨le_rfl, h⟩]
  · simp [preRepairAssertion]

/-! ### shell boundaries -/

/-- "the shell boundaries satisfy r_k < R_k < r_{k+1} with R_k the midpoint, R_T = r_T + (r_T − r_{T−1})/2": for at
least two strictly increasing radii, the first of which may be zero. -/
theorem between_spec (r : List Rat) (hT : 2 ≤ r.length) (h0 : 0 ≤ r[0]) (hs : r.Pairwise (· < ·)) :
    ∃ R, getBetweenRadii r false = .ok R ∧ ∃ hl : R.length = r.length,
      (∀ (k : Nat) (hk : k + 1 < r.length),
          R[k] = (r[k] + r[k + 1]) / 2 ∧ r[k] < R[k] ∧ R[k] < r[k + 1]) ∧
      R[r.length - 1] = r[r.length - 1] + (r[r.length - 1] - r[r.length - 2]) / 2 ∧
      r[r.length - 1] < R[r.length - 1] := by
  match r, hT, h0, hs with
  | r0 :: r1 :: rs, hT, h0, hs =>
    have hne : (r0 :: r1 :: rs) ≠ [] := by simp
    have hlen := length_betweenList (r0 :: r1 :: rs) hne
    refine ⟨betweenList (r0 :: r1 :: rs), by rw [getBetweenRadii_many r0 r1 rs false h0 hs]; rfl, hlen, ?_, ?_, ?_⟩
    · intro k hk
      have hlt : (r0 :: r1 :: rs)[k] < (r0 :: r1 :: rs)[k + 1] :=
        List.pairwise_iff_getElem.mp hs k (k + 1) (by omega) hk (by omega)
      rw [getElem_betweenList_inner _ k hk]
      refine ⟨by ring, by linarith, by linarith⟩
    · exact getElem_betweenList_last _ hT _
    · rw [getElem_betweenList_last _ hT]
      have hlt : (r0 :: r1 :: rs)[(r0 :: r1 :: rs).length - 2] < (r0 :: r1 :: rs)[(r0 :: r1 :: rs).length - 1] :=
        List.pairwise_iff_getElem.mp hs _ _ (by simp only [List.length_cons]; omega) (by simp only [List.length_cons]; omega)
          (by simp only [List.length_cons]; omega)
      linarith

/-- "R_1 = 2·r_1 when there is a single radius" (for the single radius 0 that is the boundary 0). -/
theorem between_single (r0 : Rat) (h0 : 0 ≤ r0) : getBetweenRadii [r0] false = .ok [2 * r0] := by
  rw [getBetweenRadii_single r0 false h0]; rfl

/-- `include_zero=True` prepends exactly one `0` and changes nothing else (errors included). -/
theorem between_include_zero (r : List Rat) :
    getBetweenRadii r true = (getBetweenRadii r false).map (0 :: ·) := by
  unfold getBetweenRadii
  cases getIncrements r with
  | error e => rfl
  | ok inc => rfl

/-- "all resulting grids with distinct radii": for **every** text whose grid has at least two distinct radii - a
first radius zero included, since cae935f - the shell boundaries exist and interleave the radii as `between_spec`
says.  (Before the repair this needed `0 < g[0]`; see `zero_first_radius_accepted`, `zero_radius_witness`.) -/
theorem grid_boundaries (s : List Char) (g : List Rat) (h : parseTrans s = .ok g) (hd : g.Nodup)
    (hT : 2 ≤ g.length) :
    ∃ R, getBetweenRadii g false = .ok R ∧ ∃ hl : R.length = g.length,
      (∀ (k : Nat) (hk : k + 1 < g.length),
          R[k] = (g[k] + g[k + 1]) / 2 ∧ g[k] < R[k] ∧ R[k] < g[k + 1]) ∧
      R[g.length - 1] = g[g.length - 1] + (g[g.length - 1] - g[g.length - 2]) / 2 ∧
      g[g.length - 1] < R[g.length - 1] := by
  apply between_spec g hT (trans_nonneg s g h _ (List.getElem_mem _))
  have hsorted := trans_sorted s g h
  exact (List.pairwise_and_iff.mpr ⟨hsorted, hd⟩).imp (fun hab => lt_of_le_of_ne hab.1 hab.2)

/-- … and every grid with a single radius has the one boundary `2·r_1` and the one increment `r_1`; for the grid
`[0]` (text `"0"`) these are `[0]` and `[0]`: the code returns a degenerate shell of radius 0, it does not raise. -/
theorem grid_single (s : List Char) (r0 : Rat) (h : parseTrans s = .ok [r0]) :
    getBetweenRadii [r0] false = .ok [2 * r0] ∧ getIncrements [r0] = .ok [r0] := by
  have hpos : 0 ≤ r0 := trans_nonneg s _ h r0 (by simp)
  refine ⟨between_single r0 hpos, ?_⟩
  rw [getIncrements_cons, if_pos ⟨hpos, by simp⟩]; rfl

/-- The increments of every grid with distinct radii are the first radius followed by the positive differences. -/
theorem grid_increments (s : List Char) (g : List Rat) (h : parseTrans s = .ok g) (hd : g.Nodup) (hne : g ≠ []) :
    ∃ r0 rs, g = r0 :: rs ∧ getIncrements g = .ok (r0 :: diffs g) ∧ ∀ x ∈ diffs g, 0 < x := by
  cases g with
  | nil => exact absurd rfl hne
  | cons r0 rs =>
    have hs : (r0 :: rs).Pairwise (· < ·) :=
      (List.pairwise_and_iff.mpr ⟨trans_sorted s _ h, hd⟩).imp (fun hab => lt_of_le_of_ne hab.1 hab.2)
    refine ⟨r0, rs, rfl, ?_, (diffs_pos_iff _).mpr hs⟩
    rw [getIncrements_cons, if_pos ⟨trans_nonneg s _ h r0 (by simp), hs⟩]

/-! ### witnesses (concrete inputs; kernel evaluation of the model's own reader) -/

/-- The F9 witnesses: both texts denote descending numbers … -/
theorem f9_values :
    transValues "linspace(5, 1, 3)".toList = .ok [5, 3, 1] ∧ transValues "range(5,1,-1)".toList = .ok [5, 4, 3, 2] := by
  decide +kernel

/-- … and come out ascending (before the repair the model of the old code returned `[50, 30, 10]`). -/
theorem f9_sorted :
    parseTrans "linspace(5, 1, 3)".toList = .ok [10, 30, 50] ∧
    parseTrans "range(5,1,-1)".toList = .ok [20, 30, 40, 50] := by
  have h1 : sortAsc [5, 3, 1] = [1, 3, 5] := by
    rw [sortAsc_of_antitone (by simp; norm_num)]; rfl
  have h2 : sortAsc [5, 4, 3, 2] = [2, 3, 4, 5] := by
    rw [sortAsc_of_antitone (by simp; norm_num)]; rfl
  constructor
  · rw [parse_ok_iff]; refine ⟨_, f9_values.1, by simp, ?_⟩; rw [h1]; norm_num
  · rw [parse_ok_iff]; refine ⟨_, f9_values.2, by simp, ?_⟩; rw [h2]; norm_num

/-- The witness of the repaired finding: `"[0,1]"` is accepted, its grid starts at 0, and the getters now return
`[0, 10]` / `[5, 15]`; under the pre-repair assertion they raised `AssertionError`. -/
theorem zero_radius_witness :
    parseTrans "[0,1]".toList = .ok [0, 10] ∧ getIncrements [0, 10] = .ok [0, 10] ∧
    getBetweenRadii [0, 10] false = .ok [5, 15] ∧ getBetweenRadii [0] false = .ok [0] ∧
    preRepairAssertion [0, 10] = false := by
  refine ⟨?_, by decide +kernel, by decide +kernel, by decide +kernel, by decide +kernel⟩
  rw [parse_ok_iff]
  refine ⟨[0, 1], by decide +kernel, by simp, ?_⟩
  rw [sortAsc_of_sorted (by simp)]; norm_num

/-- Dispatch order on a text containing both words: it is read as a linspace. -/
theorem dispatch_order_witness :
    transValues "linspace_range(1, 3, 2)".toList = .ok [1, 3] ∧ transValues "range(1, 3, 2)".toList = .ok [1] := by
  decide +kernel

/-- Non-vacuity of the `list_text_*` theorems: the text `" [3, -1.5\t,+.25 ,]"` is a valid `ListText`
(blanks, tab, signs, a leading point, a trailing comma) denoting `3, -3/2, 1/4`. -/
def exList : ListText :=
  ⟨[' '], [⟨[], none, [], ⟨[3], none⟩, []⟩,
           ⟨[' '], some true, [], ⟨[1], some [5]⟩, ['\t']⟩,
           ⟨[], some false, [], ⟨[], some [2, 5]⟩, [' ']⟩], true, [], []⟩

example : exList.chars = " [3, -1.5\t,+.25 ,]".toList ∧ exList.Valid ∧
    exList.items.map Item.value = [3, -3/2, 1/4] := by
  refine ⟨by decide +kernel, ?_, ?_⟩
  · simp [exList, ListText.Valid, AllBlank, Item.Valid, DecLit.Valid, isBlank]
  · have h1 : natOf [3] = 3 := rfl
    have h2 : natOf ([1] ++ [5]) = 15 := rfl
    have h3 : natOf ([] ++ [2, 5]) = 25 := rfl
    simp only [exList, List.map_cons, List.map_nil, Item.value, DecLit.value, h1, h2, h3, List.length_cons,
      List.length_nil]
    norm_num

/-- Non-vacuity of the `tuple_text_*` theorems: the bare number `" 2.50 "` and the tuple `"(3 ,1,)"`. -/
example :
    let t₁ : TupleText := ⟨false, [' '], [⟨[], none, [], ⟨[2], some [5, 0]⟩, [' ']⟩], false, [], []⟩
    let t₂ : TupleText := ⟨true, [], [⟨[], none, [], ⟨[3], none⟩, [' ']⟩, ⟨[], none, [], ⟨[1], none⟩, []⟩], true, [], []⟩
    t₁.chars = " 2.50 ".toList ∧ t₁.Valid ∧ t₂.chars = "(3 ,1,)".toList ∧ t₂.Valid := by
  refine ⟨by decide +kernel, ?_, by decide +kernel, ?_⟩ <;>
    simp [TupleText.Valid, AllBlank, Item.Valid, DecLit.Valid, isBlank]

/-- Non-vacuity of `linspace_text_grid`: `"np.linspace( 5,1 , 3) # nm"` (descending ends). -/
example :
    let a : Item := ⟨[' '], none, [], ⟨[5], none⟩, []⟩
    let b : Item := ⟨[], none, [], ⟨[1], none⟩, [' ']⟩
    let n : Item := ⟨[' '], none, [], ⟨[3], none⟩, []⟩
    ("np.linspace".toList ++ '(' :: (seqChars [a, b, n] ++ ')' :: " # nm".toList)) = "np.linspace( 5,1 , 3) # nm".toList ∧
    isInfix "linspace".toList "np.linspace( 5,1 , 3) # nm".toList = true ∧ '(' ∉ "np.linspace".toList ∧
    a.Valid ∧ b.Valid ∧ n.Valid ∧ IsCount n 3 := by
  refine ⟨by decide +kernel, by decide +kernel, by decide, ?_, ?_, ?_, ⟨rfl, by simp, rfl⟩⟩ <;>
    simp [Item.Valid, AllBlank, DecLit.Valid, isBlank]

/-- Non-vacuity of `trans_values` / `trans_order_irrelevant`: spellings, nesting, blanks, tabs. -/
example : transValues " [ 3, 1.5 ,\t2e-1]".toList = .ok [3, 3/2, 1/5] ∧
    transValues "((.2, 03.0), [15e-1, +3e0])".toList = .ok [1/5, 3, 3/2, 3] := by decide +kernel

/-- Non-vacuity of `trans_order_irrelevant` / `list_tuple_same`: a tuple and a list of the same numbers. -/
example : transValues "(2, 1)".toList = .ok [2, 1] ∧ transValues "[1, 2.0]".toList = .ok [1, 2] ∧
    ([2, 1] : List Rat).Perm [1, 2] := by
  refine ⟨by decide +kernel, by decide +kernel, List.Perm.swap _ _ _⟩

/-- Non-vacuity of `list_text_grid` (all written numbers non-negative): `"[3,.25]"`. -/
example :
    let t : ListText := ⟨[], [⟨[], none, [], ⟨[3], none⟩, []⟩, ⟨[], none, [], ⟨[], some [2, 5]⟩, []⟩], false, [], []⟩
    t.chars = "[3,.25]".toList ∧ t.Valid ∧ ∀ it ∈ t.items, 0 ≤ it.value := by
  refine ⟨by decide +kernel, ?_, ?_⟩
  · simp [ListText.Valid, AllBlank, Item.Valid, DecLit.Valid]
  · intro it hit
    simp only [List.mem_cons, List.not_mem_nil, or_false] at hit
    rcases hit with rfl | rfl <;> simp only [Item.value, DecLit.value] <;> positivity

/-- Non-vacuity of `range_text_grid`: `"arange(5,1,-1)"` (negative step, `stop ≥ 0`). -/
example :
    let a : Item := ⟨[], none, [], ⟨[5], none⟩, []⟩
    let b : Item := ⟨[], none, [], ⟨[1], none⟩, []⟩
    let st : Item := ⟨[], some true, [], ⟨[1], none⟩, []⟩
    ("arange".toList ++ '(' :: (seqChars [a, b, st] ++ ')' :: [])) = "arange(5,1,-1)".toList ∧
    isInfix "linspace".toList "arange(5,1,-1)".toList = false ∧ isInfix "range".toList "arange(5,1,-1)".toList = true ∧
    '(' ∉ "arange".toList ∧ a.Valid ∧ b.Valid ∧ st.Valid ∧ st.value < 0 ∧ 0 ≤ b.value := by
  refine ⟨by decide +kernel, by decide +kernel, by decide +kernel, by decide, ?_, ?_, ?_, ?_, ?_⟩
  · simp [Item.Valid, AllBlank, DecLit.Valid]
  · simp [Item.Valid, AllBlank, DecLit.Valid]
  · simp [Item.Valid, AllBlank, DecLit.Valid]
  · have : natOf [1] = 1 := rfl
    simp only [Item.value, DecLit.value, this]; norm_num
  · simp only [Item.value, DecLit.value]; positivity

/-- Non-vacuity of `between_spec` and `grid_boundaries`: the hypotheses hold for `[10, 20, 35]`, and for the
grid of `"linspace(5, 1, 3)"` (`f9_sorted`). -/
example : 2 ≤ ([10, 20, 35] : List Rat).length ∧ (0 : Rat) < ([10, 20, 35] : List Rat)[0] ∧
    ([10, 20, 35] : List Rat).Pairwise (· < ·) ∧ ([10, 30, 50] : List Rat).Nodup := by
  refine ⟨by simp, by simp, by simp; norm_num, by simp⟩

/-- Non-vacuity of `grid_single`: the bare number `"2"`. -/
example : parseTrans "2".toList = .ok [20] := by
  rw [parse_ok_iff]
  exact ⟨[2], by decide +kernel, by simp, by rw [sortAsc_of_sorted (by simp)]; norm_num⟩

/-- Non-vacuity of `trans_neg_rejected`. -/
example : transValues "[2, -0.5]".toList = .ok [2, -1/2] := by decide +kernel

/-- Non-vacuity of `between_spec` / `grid_boundaries` (unequal spacing, three radii). -/
example : getBetweenRadii [10, 20, 35] false = .ok [15, 55/2, 85/2] := by decide +kernel

/-- Non-vacuity of `linspace_grid` and `arange_grid_neg`. -/
example : (2 : Nat) ≤ 3 ∧ (0 : Rat) ≤ 5 ∧ (0 : Rat) ≤ 1 ∧ ((-1 : Rat) < 0) := by norm_num

end Molgri.C16
