/-
C17 — Grid names normalise to one valid (algorithm, N) or are rejected with ValueError.

Property theorems about `Molgri.Naming` (the model of `NameParser` / `GridNameParser`, molgri/naming.py, with the
tables of molgri/constants.py:37-46 as a parameter `tb`, and of the factory dispatch of molgri/space/rotobj.py:338-392).

Quantifiers: every name `name : List Char` (all Python strings whose numeric code points are ASCII digits — the
modelled reading of `str.isnumeric`, see `Model/Naming.lean`), both roles, and every table `tb` that satisfies the
decidable side condition `tablesOk` (it holds for the shipped tables: `tablesOk_shipped`; the driver re-evaluates it
on the tables of the running code).  Names carrying a dimension tag such as `3d` are *not* excluded: the code as it
exists raises `ValueError` for them (`dim_tag_rejected`), which the first clause of the property allows.
-/
import Molgri.Lemmas.Naming

namespace Molgri.C17
open Molgri.Naming

deriving instance DecidableEq for Except

/-- The shipped constants satisfy the side condition of every theorem below (non-vacuity of `h`). -/
theorem tablesOk_shipped : tablesOk shipped = true := by decide +kernel

/-- **Totality and validity.**  "parsing either raises ValueError or yields a standard name algorithm_N with N>=1 and an
algorithm valid for that role. N=1 always selects the role's zero algorithm and a zero algorithm always has N=1".
No other exception is possible (in particular not the `TypeError` of finding F7). -/
theorem parse_total (tb : Tables) (h : tablesOk tb = true) (name : List Char) (role : Role) :
    parse tb name role = .error .valueError ∨
    ∃ alg N, parse tb name role = .ok (alg, N) ∧ 1 ≤ N ∧ alg ∈ tb.valid role ∧ (N = 1 ↔ alg = tb.zero role) := by
  have hT := (tablesOk_iff tb).1 h
  cases hp : parse tb name role with
  | error e =>
    left
    unfold parse at hp
    rcases parseWith_cases .valueError tb name role with he | ⟨n, a, _, _, _, hb⟩
    · rw [he] at hp; cases hp; rfl
    · rw [hb] at hp
      rcases roleBranch_spec (zero := tb.zero role) (hasSub zeroKw name) n a (hT.dflt_mem role)
        with he | hz | ⟨_, _, hk, _⟩
      · rw [he] at hp; cases hp; rfl
      · rw [hz] at hp; cases hp
      · rw [hk] at hp; cases hp
  | ok r =>
    right
    obtain ⟨alg, N⟩ := r
    refine ⟨alg, N, rfl, ?_⟩
    rcases parse_ok_cases hT hp with ⟨h1, h2⟩ | ⟨h2, hmem, _⟩
    · subst h1 h2
      exact ⟨Nat.le_refl 1, by simp [Tables.valid], by simp⟩
    · refine ⟨by omega, by simp [Tables.valid, hmem], ?_⟩
      constructor
      · intro h1; omega
      · intro h1; subst h1; exact absurd hmem (hT.zero_not_mem role)

/-- Non-vacuity of the hypothesis `parse … = .ok (alg, N)` used below: accepted names of every kind, both roles
(`ico_7`, `12_randomQ`, `zero`, `cube4D_1`, `abc_1`), next to rejected ones (`ico`, `ico_0`, `cube4D_5` as direction). -/
example :
    parse shipped ['i','c','o','_','7'] .o = .ok (['i','c','o'], 7) ∧
    parse shipped ['1','2','_','r','a','n','d','o','m','Q'] .b = .ok (['r','a','n','d','o','m','Q'], 12) ∧
    parse shipped ['z','e','r','o'] .b = .ok (['z','e','r','o','4','D'], 1) ∧
    parse shipped ['c','u','b','e','4','D','_','1'] .b = .ok (['z','e','r','o','4','D'], 1) ∧
    parse shipped ['a','b','c','_','1'] .o = .ok (['z','e','r','o','3','D'], 1) ∧
    parse shipped ['i','c','o'] .o = .error .valueError ∧
    parse shipped ['i','c','o','_','0'] .o = .error .valueError ∧
    parse shipped ['c','u','b','e','4','D','_','5'] .o = .error .valueError := by decide +kernel

/-- "yields a standard name algorithm_N with N>=1 and an algorithm valid for that role" -/
theorem ok_valid (tb : Tables) (h : tablesOk tb = true) (name : List Char) (role : Role) (alg : Tok) (N : Nat)
    (hp : parse tb name role = .ok (alg, N)) : 1 ≤ N ∧ alg ∈ tb.valid role := by
  rcases parse_total tb h name role with he | ⟨a, n, hk, h1, h2, _⟩
  · rw [he] at hp; cases hp
  · rw [hk] at hp; cases hp; exact ⟨h1, h2⟩

/-- "N=1 always selects the role's zero algorithm and a zero algorithm always has N=1" -/
theorem n1_iff_zero (tb : Tables) (h : tablesOk tb = true) (name : List Char) (role : Role) (alg : Tok) (N : Nat)
    (hp : parse tb name role = .ok (alg, N)) : N = 1 ↔ alg = tb.zero role := by
  rcases parse_total tb h name role with he | ⟨a, n, hk, _, _, h3⟩
  · rw [he] at hp; cases hp
  · rw [hk] at hp; cases hp; exact h3

/-- "a zero algorithm always has N=1", for the zero algorithm of *either* role (the other role's zero algorithm is
never returned at all). -/
theorem zero_alg_has_N1 (tb : Tables) (h : tablesOk tb = true) (name : List Char) (role role' : Role) (alg : Tok)
    (N : Nat) (hp : parse tb name role = .ok (alg, N)) (hz : alg = tb.zero role') : N = 1 ∧ role' = role := by
  have hT := (tablesOk_iff tb).1 h
  rcases parse_ok_cases hT hp with ⟨h1, h2⟩ | ⟨_, hmem, _⟩
  · refine ⟨h2, ?_⟩
    rw [h1] at hz
    cases role <;> cases role' <;> first | rfl | exact absurd hz hT.zero_ne | exact absurd hz.symm hT.zero_ne
  · rw [hz] at hmem; exact absurd hmem (hT.zero_not_mem' role' role)

/-- Nothing is normalised silently: an accepted name with `N ≥ 2` carries exactly the number that is the name's only
numeric token and the algorithm that is its only algorithm token (or the role's default if it has none); an accepted
name with `N = 1` has the number 1 or no number at all. -/
theorem ok_keeps_number_and_alg (tb : Tables) (h : tablesOk tb = true) (name : List Char) (role : Role) (alg : Tok)
    (N : Nat) (hp : parse tb name role = .ok (alg, N)) :
    (findNumber name = .ok (some N) ∨ (findNumber name = .ok none ∧ N = 1)) ∧
    (2 ≤ N → findAlgorithm tb name = .ok (some alg) ∨ (findAlgorithm tb name = .ok none ∧ alg = tb.dflt role)) := by
  have hT := (tablesOk_iff tb).1 h
  rcases parse_ok_cases hT hp with ⟨_, h2⟩ | ⟨h2, _, hn, _, ha⟩
  · subst h2
    refine ⟨?_, fun h => by omega⟩
    -- N = 1: look at the branch taken
    unfold parse at hp
    rcases parseWith_cases .valueError tb name role with he | ⟨n, a, hn, _, _, hb⟩
    · rw [he] at hp; cases hp
    · rw [hb] at hp
      cases n with
      | none => exact Or.inr ⟨hn, rfl⟩
      | some m =>
        left
        rw [hn]
        have : m = 1 := roleBranch_ok_one hp
        rw [this]
  · exact ⟨Or.inl hn, fun _ => ha⟩

/-- "a bare number N>1 selects the role's default algorithm" — together with the two other outcomes of a bare number
(any non-empty all-digit name, leading zeros allowed): value 1 gives the zero algorithm, value 0 is rejected. -/
theorem bare_number (tb : Tables) (h : tablesOk tb = true) (name : List Char) (role : Role)
    (hnum : isNumeric name = true) :
    parse tb name role =
      if pyInt name = 1 then .ok (tb.zero role, 1)
      else if 1 < pyInt name then .ok (tb.dflt role, pyInt name)
      else .error .valueError := by
  have hT := (tablesOk_iff tb).1 h
  have hsplit : splitU name = [name] := splitU_of_not_mem (not_mem_of_numeric hnum (by decide))
  have h1 : findNumber name = .ok (some (pyInt name)) := by
    unfold findNumber; rw [hsplit]; simp [List.filter, hnum, pick]
  have h2 : findAlgorithm tb name = .ok none := by
    have : tb.all.contains name = false := by simpa using numeric_not_mem_all hT hnum
    unfold findAlgorithm; rw [hsplit]; simp only [List.filter, this, pick]
  have h3 : findDim name = .ok none := by
    rw [findDim_eq, hsplit]; simp [List.filter, numeric_not_dimTag hnum]
  unfold parse
  rw [parseWith_of_scans h1 h2 h3, numeric_no_zeroKw hnum]
  by_cases h1 : pyInt name = 1
  · simp [roleBranch, h1]
  · by_cases h2 : 1 < pyInt name <;> simp [roleBranch, h1, h2]

/-- "a bare number N>1 selects the role's default algorithm" (the clause itself). -/
theorem bare_number_default (tb : Tables) (h : tablesOk tb = true) (name : List Char) (role : Role)
    (hnum : isNumeric name = true) (hN : 1 < pyInt name) : parse tb name role = .ok (tb.dflt role, pyInt name) := by
  rw [bare_number tb h name role hnum, if_neg (by omega), if_pos hN]

/-- Non-vacuity of `bare_number_default` and the concrete instances on the shipped tables: `"7"` and `"007"`. -/
example : isNumeric ['0','0','7'] = true ∧ 1 < pyInt ['0','0','7'] := by decide +kernel
example : parse shipped ['7'] .o = .ok (['i','c','o'], 7) ∧ parse shipped ['0','0','7'] .b = .ok (['c','u','b','e','4','D'], 7) := by
  decide +kernel

/-- More generally: *any* name without algorithm token, without `zero` and without dimension tag whose only number is
`N > 1` gets the role's default algorithm. -/
theorem number_without_alg_default (tb : Tables) (name : List Char) (role : Role) (N : Nat)
    (hn : findNumber name = .ok (some N)) (ha : findAlgorithm tb name = .ok none) (hd : findDim name = .ok none)
    (hz : hasSub zeroKw name = false) (hN : 1 < N) : parse tb name role = .ok (tb.dflt role, N) := by
  unfold parse
  rw [parseWith_of_scans hn ha hd, hz]
  have : N ≠ 1 := by omega
  simp [roleBranch, this, hN]

example : findNumber ['a','b','c','_','1','2'] = .ok (some 12) ∧ findAlgorithm shipped ['a','b','c','_','1','2'] = .ok none
    ∧ findDim ['a','b','c','_','1','2'] = .ok none ∧ hasSub zeroKw ['a','b','c','_','1','2'] = false := by decide +kernel

/-- "names with two numbers … are rejected" (no condition on the tables; also with `zero` in the name). -/
theorem two_numbers_rejected (tb : Tables) (name : List Char) (role : Role)
    (h2 : 2 ≤ ((splitU name).filter isNumeric).length) : parse tb name role = .error .valueError := by
  apply parseWith_number_err
  unfold findNumber
  exact pick_two (by simpa using h2)

example : 2 ≤ ((splitU ['z','e','r','o','_','7','_','1','2']).filter isNumeric).length := by decide +kernel

/-- "names with … two algorithm tokens are rejected" (tokens that are entries of `ALL_GRID_ALGORITHMS`, of either
role, zero names included). -/
theorem two_algs_rejected (tb : Tables) (name : List Char) (role : Role)
    (h2 : 2 ≤ ((splitU name).filter (fun t => tb.all.contains t)).length) :
    parse tb name role = .error .valueError := by
  rcases findNumber_total name with hn | ⟨n, hn⟩
  · exact parseWith_number_err hn
  · apply parseWith_alg_err hn
    unfold findAlgorithm
    exact pick_two h2

example : 2 ≤ ((splitU ['i','c','o','_','c','u','b','e','4','D','_','5']).filter (fun t => shipped.all.contains t)).length := by
  decide +kernel

/-- The code as it exists rejects every name with a dimension tag (`int("3d")` raises `ValueError`); the property
leaves these names unspecified, so this is additional information, not a clause. -/
theorem dim_tag_rejected (tb : Tables) (name : List Char) (role : Role)
    (hd : ∃ t ∈ splitU name, isDimTag t = true) : parse tb name role = .error .valueError := by
  obtain ⟨t, ht, htag⟩ := hd
  have hne : (splitU name).filter isDimTag ≠ [] := by
    intro he
    have : t ∈ (splitU name).filter isDimTag := List.mem_filter.2 ⟨ht, htag⟩
    rw [he] at this; cases this
  have hdim : findDim name = .error .valueError := by rw [findDim_eq, if_neg hne]
  rcases findNumber_total name with hn | ⟨n, hn⟩
  · exact parseWith_number_err hn
  rcases findAlgorithm_total tb name with ha | ⟨a, ha⟩
  · exact parseWith_alg_err hn ha
  · exact parseWith_dim_err hn ha hdim

example : ∃ t ∈ splitU ['i','c','o','_','7','_','3','d'], isDimTag t = true := ⟨['3','d'], by decide +kernel, by decide +kernel⟩

/-- Every standard name of a role (`zero_1`, and `alg_N` with `alg` in the role's set and `N ≥ 2`) parses to itself. -/
theorem standard_name_fixed (tb : Tables) (h : tablesOk tb = true) (role : Role) :
    parse tb (stdName (tb.zero role) 1) role = .ok (tb.zero role, 1) ∧
    ∀ alg ∈ tb.roleSet role, ∀ n, 2 ≤ n → parse tb (stdName alg n) role = .ok (alg, n) :=
  parse_stdName ((tablesOk_iff tb).1 h) role

/-- "Re-parsing the standard name gives the same standard name." -/
theorem reparse_idempotent (tb : Tables) (h : tablesOk tb = true) (name : List Char) (role : Role) (alg : Tok) (N : Nat)
    (hp : parse tb name role = .ok (alg, N)) : parse tb (stdName alg N) role = .ok (alg, N) := by
  have hT := (tablesOk_iff tb).1 h
  rcases parse_ok_cases hT hp with ⟨h1, h2⟩ | ⟨h2, hmem, _⟩
  · subst h1 h2; exact (parse_stdName hT role).1
  · exact (parse_stdName hT role).2 alg hmem N h2

/-- A standard name with `N ≥ 2` belongs to one role only: the other role's parser rejects it. -/
theorem standard_name_other_role_rejected (tb : Tables) (h : tablesOk tb = true) (name : List Char) (role role' : Role)
    (alg : Tok) (N : Nat) (hp : parse tb name role = .ok (alg, N)) (hN : 2 ≤ N) (hr : role ≠ role') :
    parse tb (stdName alg N) role' = .error .valueError := by
  have hT := (tablesOk_iff tb).1 h
  rcases parse_ok_cases hT hp with ⟨_, h2⟩ | ⟨_, hmem, _⟩
  · omega
  · obtain ⟨h1, h2, h3, h4⟩ := scans_stdName hT (tb.roleSet_sub_all role hmem) N
    unfold parse
    rw [parseWith_of_scans h1 h2 h3, h4, hT.set_kw role hmem]
    have : alg ∉ tb.roleSet role' := hT.other_role hr hmem
    simp [roleBranch, this]

/-- The standard name is `f"{alg}_{N}"` with Lean's `toString N` = Python's `str(N)` (decimal, no padding). -/
theorem stdName_eq_toString (alg : Tok) (N : Nat) :
    String.ofList (stdName alg N) = String.ofList alg ++ "_" ++ toString N := by
  unfold stdName natStr
  rw [Nat.toString_eq_repr, Nat.repr_eq_ofList_toDigits]
  simp [String.ofList_append, String.append_assoc]

/-
OPEN (no theorem; outside the model): "constructing the grid from it yields exactly N points".  The generators
(`polytopes.py`, numpy RNG, `get_half_of_hypercube`) are numerics and are not modelled here; the clause is evaluated on the
implementation by the oracle of `harness/props/c17.py` for every accepted (alg, N) with N ≤ 12 (quick) / 40 and fulldiv_272
(thorough), and the point count of the generators is the subject of C07/C18.  What *is* proved is the dispatch part:
-/
/-- **Construction dispatch** ("constructing the grid from it … or a ValueError for a size the chosen algorithm documents
as unsupported"): for every accepted name (shipped tables) the factory of the role's dimension knows the algorithm;
the only error it can raise before the numerics is `fulldiv` with a size that is not a full subdivision.
(That the chosen generator then returns exactly `N` points is numerics — checked by the oracle, and property C07.) -/
theorem factory_accepts_parsed (name : List Char) (role : Role) (alg : Tok) (N : Nat)
    (hp : parse shipped name role = .ok (alg, N)) :
    (∃ b, factory role alg N = .ok b) ∨
    (role = .b ∧ alg = ['f','u','l','l','d','i','v'] ∧ N ∉ fulldivAllowed ∧ factory role alg N = .error .valueError) := by
  have hv := (ok_valid shipped tablesOk_shipped name role alg N hp).2
  cases role with
  | o =>
    left
    simp only [Tables.valid, Tables.roleSet, Tables.zero, shipped, List.mem_append, List.mem_cons, List.not_mem_nil,
      or_false] at hv
    rcases hv with (h | h | h) | h <;> subst h <;> simp [factory, factory3]
  | b =>
    simp only [Tables.valid, Tables.roleSet, Tables.zero, shipped, List.mem_append, List.mem_cons, List.not_mem_nil,
      or_false] at hv
    rcases hv with (h | h | h) | h
    · subst h; exact Or.inl ⟨.randomQ, by simp [factory, factory4]⟩
    · subst h; exact Or.inl ⟨.cube4D, by simp [factory, factory4]⟩
    · subst h
      by_cases hc : N ∈ fulldivAllowed
      · left; exact ⟨.fulldiv, by simp [factory, factory4, hc]⟩
      · right
        refine ⟨rfl, rfl, hc, ?_⟩
        simp [factory, factory4, hc]
    · subst h; exact Or.inl ⟨.zero4D, by simp [factory, factory4]⟩

/-- Witness for the second alternative of `factory_accepts_parsed`: `fulldiv_9` is accepted by the parser and refused
by the generator with the documented `ValueError`. -/
theorem fulldiv_9_refused :
    parse shipped ['f','u','l','l','d','i','v','_','9'] .b = .ok (['f','u','l','l','d','i','v'], 9) ∧
    factory .b ['f','u','l','l','d','i','v'] 9 = .error .valueError := by decide +kernel

/-- **Regression witness for finding F7** (repaired in `/repo` by `ddba0bd`): the code *before* the repair raised
`TypeError` for a name with neither number nor algorithm, so `parse_total` was false of it; the repaired code raises
`ValueError` for the same names. -/
theorem f7_pre_repair_witness :
    parsePre shipped ['a','b','c'] .o = .error .typeError ∧ parsePre shipped ['n','o','n','e'] .b = .error .typeError ∧
    parse shipped ['a','b','c'] .o = .error .valueError ∧ parse shipped ['n','o','n','e'] .b = .error .valueError := by
  decide +kernel

end Molgri.C17
