/-
C18 — polytope subdivision produces exactly the lattice points of the solid's surface.

Property theorems about `Molgri.Polytope` (the model of `molgri/space/polytopes.py`: the three `_create_level0`,
`divide_edges`, `_add_mid_edge_nodes`, `_add_edges_of_len`, `_end_of_divison`, `get_nodes`,
`get_half_of_hypercube`, `q_in_upper_sphere`).

Quantifiers.  `k : Nat` is the number of `divide_edges` calls (EVERY level, not only the levels ≤ 4 / ≤ 2 the
property names); `σ : Nat → Nat → Nat → Nat` is the offset table that stands for numpy's shuffle composed with
networkx's enumeration order (`σ level n position`): theorems about the node *set* hold for every `σ`, theorems
about indices for every family of permutations (`PermFam σ`).  Coordinates: after `k` divisions the unit is
`h / 2^k` (`h` = absolute value of a level-0 vertex coordinate), so the cube has half width `2^k` and lattice
spacing 2; this is the "`2^k`-per-edge lattice".

All clauses are proved for every level, for the cube, the hypercube and the icosahedron (coordinates in ℤ[φ],
stored as `[a₁,b₁,a₂,b₂,a₃,b₃]`).
-/
import Molgri.Lemmas.PolytopeGetters
import Molgri.Lemmas.PolytopeSpec
import Molgri.Lemmas.PolytopeSeconds
import Mathlib.Algebra.Order.Field.Basic
import Mathlib.Tactic.FieldSimp
import Mathlib.Tactic.Positivity
import Mathlib.Tactic.NormNum
import Mathlib.Data.Int.Cast.Lemmas
import Mathlib.Algebra.Order.Field.Rat

namespace Molgri.C18
open Molgri.Polytope

/-- coordinate `i` of a point (0 outside the list). -/
abbrev coord (p : Pt) (i : Nat) : Int := co p i

/-- The ideal lattice of the statement for the cube (`d = 3`) and hypercube (`d = 4`) after `k` divisions:
integer points with all coordinates between `-2^k` and `2^k`, congruent to `2^k` modulo 2 (spacing 2, i.e. `2^k`
intervals per edge), at least one coordinate equal to `± 2^k` (on the boundary). -/
def OnCubeLattice (d k : Nat) (p : Pt) : Prop :=
  p.length = d ∧ (∀ i, i < d → -(2 : Int) ^ k ≤ coord p i ∧ coord p i ≤ (2 : Int) ^ k ∧ coord p i % 2 = (2 : Int) ^ k % 2) ∧
    ∃ i, i < d ∧ (coord p i = (2 : Int) ^ k ∨ coord p i = -(2 : Int) ^ k)

theorem onCubeLattice_iff (d k : Nat) (p : Pt) : OnCubeLattice d k p ↔ Lat d ((2 : Int) ^ k) p := Iff.rfl

/-- "After k subdivisions the cube and hypercube polytopes contain exactly the points of the 2^k-per-edge lattice
that lie on the boundary of the cube or hypercube" — for EVERY `k`, every offset table. -/
theorem cube_nodes_eq_lattice (σ : Nat → Nat → Nat → Nat) (kind : Kind) (hk : kind = .cube3 ∨ kind = .cube4)
    (k : Nat) (p : Pt) :
    p ∈ (iter σ kind k).nodes.map (·.pt) ↔ OnCubeLattice (cubeDim kind) k p :=
  (geo_iter σ kind hk k).nodes p

/-- "… each once": no point occurs twice in the node list. -/
theorem cube_nodes_nodup (σ : Nat → Nat → Nat → Nat) (kind : Kind) (hk : kind = .cube3 ∨ kind = .cube4) (k : Nat) :
    ((iter σ kind k).nodes.map (·.pt)).Nodup :=
  (geo_iter σ kind hk k).nodup

/-- The edge invariant that carries the induction (and is compared edge by edge with `G.edges()` on every run):
after every division the edges are exactly the pairs of distinct lattice points on a common facet that differ by at
most one lattice step in every coordinate. -/
theorem cube_edges_spec (σ : Nat → Nat → Nat → Nat) (kind : Kind) (hk : kind = .cube3 ∨ kind = .cube4) (k : Nat)
    (p q : Pt) :
    ((p, q) ∈ (iter σ kind k).edges ∨ (q, p) ∈ (iter σ kind k).edges) ↔
      (OnCubeLattice (cubeDim kind) k p ∧ OnCubeLattice (cubeDim kind) k q ∧ p ≠ q ∧
        (∀ i, i < cubeDim kind → coord p i - coord q i ≤ 2 ∧ coord q i - coord p i ≤ 2) ∧
        ∃ i, i < cubeDim kind ∧ coord p i = coord q i ∧ (coord p i = (2 : Int) ^ k ∨ coord p i = -(2 : Int) ^ k)) :=
  (geo_iter σ kind hk k).edges p q

/-- The `face` attribute of every node is exactly the set of facets (numbered as in the code's tables) the node
lies on — the mechanism "extra face/cell diagonals … so that face and cell centres appear" relies on it. -/
theorem cube_faces_spec (σ : Nat → Nat → Nat → Nat) (kind : Kind) (hk : kind = .cube3 ∨ kind = .cube4) (k : Nat)
    (nd : Node) (hnd : nd ∈ (iter σ kind k).nodes) (f : Nat) :
    f ∈ nd.face ↔ ∃ ax pos, (cubeTab kind)[f]? = some (ax, pos) ∧
      coord nd.pt ax = if pos then (2 : Int) ^ k else -(2 : Int) ^ k :=
  (geo_iter σ kind hk k).faces nd hnd f

/-- "the node set is closed under negation" (cube, hypercube; every level). -/
theorem cube_nodes_neg_closed (σ : Nat → Nat → Nat → Nat) (kind : Kind) (hk : kind = .cube3 ∨ kind = .cube4) (k : Nat)
    (p : Pt) (hp : p ∈ (iter σ kind k).nodes.map (·.pt)) : neg p ∈ (iter σ kind k).nodes.map (·.pt) := by
  rw [cube_nodes_eq_lattice σ kind hk] at hp ⊢
  obtain ⟨h1, h2, i, hi, h3⟩ := hp
  refine ⟨by simpa using h1, ?_, i, hi, ?_⟩
  · intro j hj
    have := h2 j hj
    simp only [coord, co_neg] at this ⊢
    omega
  · simp only [coord, co_neg] at h3 ⊢
    omega

/-- index bookkeeping invariant after every number of divisions, for each of the three classes. -/
theorem good_iter (σ : Nat → Nat → Nat → Nat) (hσ : PermFam σ) (kind : Kind) (k : Nat) : Good (iter σ kind k) := by
  cases kind with
  | ico => exact good_iter_ico σ hσ k
  | cube3 => exact good_iter_cube σ hσ .cube3 (Or.inl rfl) k
  | cube4 => exact good_iter_cube σ hσ .cube4 (Or.inr rfl) k

/-- "permanent indices are 0..n-1": the index list is a permutation of `0, …, n-1` (`n` = number of nodes), for
every family of permutations `σ`, every level, each of the three classes. -/
theorem index_bijection (σ : Nat → Nat → Nat → Nat) (hσ : PermFam σ) (kind : Kind) (k : Nat) :
    ((iter σ kind k).nodes.map (·.idx)).Perm (List.range (iter σ kind k).nodes.length) := by
  have h := good_iter σ hσ kind k
  rw [h.length_eq]
  exact h.perm

/-- "all indices of an earlier level below those of a later one". -/
theorem level_monotone (σ : Nat → Nat → Nat → Nat) (hσ : PermFam σ) (kind : Kind) (k : Nat) (a b : Node)
    (ha : a ∈ (iter σ kind k).nodes) (hb : b ∈ (iter σ kind k).nodes) (hab : a.level < b.level) : a.idx < b.idx :=
  (good_iter σ hσ kind k).mono a ha b hb hab

theorem cur_iter (σ : Nat → Nat → Nat → Nat) (kind : Kind) (k : Nat) : (iter σ kind k).cur = k + 1 := by
  induction k with
  | zero =>
    rw [show iter σ kind 0 = create σ kind from rfl, create_eq]
    cases kind <;> rfl
  | succ k ih =>
    cases kind with
    | ico =>
      rw [iter_ico_succ]
      show (iter σ .ico k).cur + 1 = _
      rw [ih]
    | cube3 =>
      rw [show iter σ .cube3 (k + 1) = divide σ .cube3 (iter σ .cube3 k) from rfl, divide_cube σ .cube3 (Or.inl rfl), passes_cur]
      show (iter σ .cube3 k).cur + 1 = _
      rw [ih]
    | cube4 =>
      rw [show iter σ .cube4 (k + 1) = divide σ .cube4 (iter σ .cube4 k) from rfl, divide_cube σ .cube4 (Or.inr rfl), passes_cur]
      show (iter σ .cube4 k).cur + 1 = _
      rw [ih]

/-- `current_level` is the number of divisions plus one, and the `level` attribute of a node never exceeds the number
of divisions (every class, every offset table). -/
theorem level_le (σ : Nat → Nat → Nat → Nat) (kind : Kind) (k : Nat) (a : Node) (ha : a ∈ (iter σ kind k).nodes) :
    (iter σ kind k).cur = k + 1 ∧ a.level ≤ k := by
  have hc := cur_iter σ kind k
  refine ⟨hc, ?_⟩
  have h : a.level < (iter σ kind k).cur := by
    cases kind with
    | ico => exact (geoI_completed σ k).lvl a ha
    | cube3 => exact (geo_iter σ .cube3 (Or.inl rfl) k).lvl a ha
    | cube4 => exact (geo_iter σ .cube4 (Or.inr rfl) k).lvl a ha
  omega

/-- "… and unchanged by later subdivisions": every node of level `k` is still present `m` divisions later at the
same position (coordinates scaled by `2^m` because the unit halves `m` times) with the same index, level and face —
every class, every offset table. -/
theorem index_stable (σ : Nat → Nat → Nat → Nat) (kind : Kind) (k m : Nat) (nd : Node)
    (hnd : nd ∈ (iter σ kind k).nodes) :
    ∃ nd' ∈ (iter σ kind (k + m)).nodes, nd'.pt = smul ((2 : Int) ^ m) nd.pt ∧ nd'.idx = nd.idx ∧
      nd'.level = nd.level ∧ nd'.face = nd.face := by
  cases kind with
  | ico => exact keeps_iter_ico σ k m nd hnd
  | cube3 => exact keeps_iter_cube σ .cube3 (Or.inl rfl) k m nd hnd
  | cube4 => exact keeps_iter_cube σ .cube4 (Or.inr rfl) k m nd hnd

/-- the executable list `cubeLattice d k` of the model (the harness compares it with the oracle's own construction of
the lattice on every run) enumerates exactly `OnCubeLattice d k`. -/
theorem cube_lattice_list (d k : Nat) (p : Pt) : p ∈ cubeLattice d k ↔ OnCubeLattice d k p :=
  mem_cubeLattice d k p

/-! ### icosahedron -/

/-- The ideal lattice of the statement for the icosahedron after `k` divisions: the frequency-`2^k` points
`i·A + j·B + l·C`, `i + j + l = 2^k`, `i, j, l ≥ 0`, of the twenty flat faces `(A, B, C)` (vertex numbers as in the
code's `faces` table; coordinates of the vertices in ℤ[φ]). -/
def OnIcoLattice (k : Nat) (p : Pt) : Prop :=
  ∃ A B C, [A, B, C] ∈ icoFaces ∧ ∃ i j l : Int, 0 ≤ i ∧ 0 ≤ j ∧ 0 ≤ l ∧ i + j + l = 2 ^ k ∧
    p = add3 (smul i (icoVertices.getD A [])) (smul j (icoVertices.getD B [])) (smul l (icoVertices.getD C []))

theorem onIcoLattice_iff (k : Nat) (p : Pt) : OnIcoLattice k p ↔ LatI k p := Iff.rfl

/-- "… and the icosahedron exactly the frequency-2^k geodesic lattice points of its twenty flat faces" — for EVERY
`k`, every offset table. -/
theorem ico_nodes_eq_lattice (σ : Nat → Nat → Nat → Nat) (k : Nat) (p : Pt) :
    p ∈ (iter σ .ico k).nodes.map (·.pt) ↔ OnIcoLattice k p :=
  (geoI_completed σ k).nodes p

/-- the same with the executable list `icoLattice k` of the model (which the harness compares with the oracle's own
construction of the geodesic lattice on every run). -/
theorem ico_nodes_eq_lattice_list (σ : Nat → Nat → Nat → Nat) (k : Nat) (p : Pt) :
    p ∈ (iter σ .ico k).nodes.map (·.pt) ↔ p ∈ icoLattice k := by
  rw [mem_icoLattice]; exact ico_nodes_eq_lattice σ k p

/-- "… each once". -/
theorem ico_nodes_nodup (σ : Nat → Nat → Nat → Nat) (k : Nat) : ((iter σ .ico k).nodes.map (·.pt)).Nodup :=
  (geoI_completed σ k).nodup

/-- The edge invariant that carries the induction: the graph from which a division starts (the object's graph plus
the edges its `divide_edges` adds among the newest nodes before inserting midpoints) is the full triangulation:
two lattice points are joined iff they lie on a common face one lattice step apart. -/
theorem ico_completed_edges_spec (σ : Nat → Nat → Nat → Nat) (k : Nat) (p q : Pt) :
    ((p, q) ∈ (icoCompleted σ k).edges ∨ (q, p) ∈ (icoCompleted σ k).edges) ↔
      ∃ A B C, [A, B, C] ∈ icoFaces ∧ ∃ i j l i' j' l' : Int, 0 ≤ i ∧ 0 ≤ j ∧ 0 ≤ l ∧ 0 ≤ i' ∧ 0 ≤ j' ∧ 0 ≤ l' ∧
        i + j + l = 2 ^ k ∧ i' + j' + l' = 2 ^ k ∧ p = comb A B C i j l ∧ q = comb A B C i' j' l' ∧
        UnitStep (i' - i) (j' - j) (l' - l) :=
  (geoI_completed σ k).edges p q

/-- the object's own graph (before that pass) consists of the two halves of every edge of the previous triangulation;
at level 0 it is the full triangulation (thirty edges). -/
theorem ico_edges_spec (σ : Nat → Nat → Nat → Nat) (k : Nat) (p q : Pt) :
    (((p, q) ∈ (iter σ .ico 0).edges ∨ (q, p) ∈ (iter σ .ico 0).edges) ↔ AdjI 0 p q) ∧
    (((p, q) ∈ (iter σ .ico (k + 1)).edges ∨ (q, p) ∈ (iter σ .ico (k + 1)).edges) ↔
      ∃ a b, AdjI k a b ∧ ((p = mid a b ∧ q = dbl a) ∨ (q = mid a b ∧ p = dbl a))) := by
  refine ⟨(geoI_create σ).edges p q, ?_⟩
  rw [iter_ico_succ]
  have h : ∀ x y, E (endOfDivision σ (addMidEdgeNodes (icoCompleted σ k))) x y ↔ E (addMidEdgeNodes (icoCompleted σ k)) x y :=
    fun _ _ => Iff.rfl
  show E _ p q ↔ _
  rw [h, E_addMid]
  constructor
  · rintro ⟨a, b, hab, hh⟩; exact ⟨a, b, ((geoI_completed σ k).edges a b).1 hab, hh⟩
  · rintro ⟨a, b, hab, hh⟩; exact ⟨a, b, ((geoI_completed σ k).edges a b).2 hab, hh⟩

/-- the `face` attribute of every icosahedron node is exactly the set of faces the node lies on. -/
theorem ico_faces_spec (σ : Nat → Nat → Nat → Nat) (k : Nat) (nd : Node) (hnd : nd ∈ (iter σ .ico k).nodes) (f : Nat) :
    f ∈ nd.face ↔ ∃ A B C, icoFaces[f]? = some [A, B, C] ∧ ∃ i j l : Int, 0 ≤ i ∧ 0 ≤ j ∧ 0 ≤ l ∧
      i + j + l = 2 ^ k ∧ nd.pt = comb A B C i j l :=
  (geoI_completed σ k).faces nd hnd f

/-- "the node set is closed under negation" (icosahedron; every level). -/
theorem ico_nodes_neg_closed (σ : Nat → Nat → Nat → Nat) (k : Nat) (p : Pt)
    (hp : p ∈ (iter σ .ico k).nodes.map (·.pt)) : neg p ∈ (iter σ .ico k).nodes.map (·.pt) := by
  rw [ico_nodes_eq_lattice] at hp ⊢
  exact latI_neg hp

/-! ### the `only_seconds` search filter

`_add_edges_of_len(…, only_seconds=True)` looks for partners of a node only among its second neighbours.  The model
has no such filter.  The following theorems show that the filter never excludes a pair the model connects: whenever
a pass after (cube, hypercube) or before (icosahedron) a midpoint insertion joins two nodes, these two nodes already
have a common neighbour in the graph the pass starts from.  (Level 0 of the cube: `cube3_seconds_level0`; the first
pass of the icosahedron joins nothing, all thirty edges exist.) -/

/-- level 0 of the cube (finite table): the end points of every face diagonal have a common neighbour among the
straight edges. -/
theorem cube3_seconds_level0 :
    ∀ p ∈ cube3Vertices, ∀ q ∈ cube3Vertices, isLen 8 p q = true →
      ∃ c ∈ cube3Vertices, E (addEdgesOfLen (isLen 4) 0 false (emptySt (mkVertices cube3Vertices cube3Faces))) p c ∧
        E (addEdgesOfLen (isLen 4) 0 false (emptySt (mkVertices cube3Vertices cube3Faces))) c q :=
  Molgri.Polytope.cube3_seconds_level0

/-- cube / hypercube, every level: two nodes of the newest level that are joined by an edge after `divide_edges`
have a common neighbour right after the midpoint insertion (before the passes). -/
theorem cube_seconds_filter_vacuous (σ : Nat → Nat → Nat → Nat) (kind : Kind) (hk : kind = .cube3 ∨ kind = .cube4)
    (k : Nat) (a b : Node)
    (ha : a ∈ (endOfDivision σ (addMidEdgeNodes (iter σ kind k))).nodes)
    (hb : b ∈ (endOfDivision σ (addMidEdgeNodes (iter σ kind k))).nodes)
    (hla : a.level = (iter σ kind k).cur) (hlb : b.level = (iter σ kind k).cur)
    (hE : (a.pt, b.pt) ∈ (iter σ kind (k + 1)).edges ∨ (b.pt, a.pt) ∈ (iter σ kind (k + 1)).edges) :
    ∃ c, ((a.pt, c) ∈ (endOfDivision σ (addMidEdgeNodes (iter σ kind k))).edges ∨
          (c, a.pt) ∈ (endOfDivision σ (addMidEdgeNodes (iter σ kind k))).edges) ∧
         ((c, b.pt) ∈ (endOfDivision σ (addMidEdgeNodes (iter σ kind k))).edges ∨
          (b.pt, c) ∈ (endOfDivision σ (addMidEdgeNodes (iter σ kind k))).edges) := by
  have hg := geo_iter σ kind hk k
  have hadj := ((geo_iter σ kind hk (k + 1)).edges a.pt b.pt).1 hE
  rw [pow_succ, mul_comm] at hadj
  exact cube_seconds_complete σ hg a.pt b.pt (new_of_level σ _ hg.fresh hg.lvl a ha hla)
    (new_of_level σ _ hg.fresh hg.lvl b hb hlb) hadj

/-- icosahedron, every level: two nodes of the newest level that the pre-division pass of the next `divide_edges`
joins have a common neighbour in the object's graph. -/
theorem ico_seconds_filter_vacuous (σ : Nat → Nat → Nat → Nat) (k : Nat) (a b : Node)
    (ha : a ∈ (iter σ .ico (k + 1)).nodes) (hb : b ∈ (iter σ .ico (k + 1)).nodes)
    (hla : a.level = (iter σ .ico k).cur) (hlb : b.level = (iter σ .ico k).cur)
    (hE : (a.pt, b.pt) ∈ (icoCompleted σ (k + 1)).edges ∨ (b.pt, a.pt) ∈ (icoCompleted σ (k + 1)).edges) :
    ∃ c, ((a.pt, c) ∈ (iter σ .ico (k + 1)).edges ∨ (c, a.pt) ∈ (iter σ .ico (k + 1)).edges) ∧
         ((c, b.pt) ∈ (iter σ .ico (k + 1)).edges ∨ (b.pt, c) ∈ (iter σ .ico (k + 1)).edges) := by
  have hg := geoI_completed σ k
  have hadj := ((geoI_completed σ (k + 1)).edges a.pt b.pt).1 hE
  rw [iter_ico_succ] at ha hb ⊢
  exact ico_seconds_complete σ hg a.pt b.pt (new_of_level σ _ hg.fresh hg.lvl a ha hla)
    (new_of_level σ _ hg.fresh hg.lvl b hb hlb) hadj

/-! ### getters -/

/-- "permanent indices are 0..n-1" as seen through `get_nodes()`: row `i` is the node with index `i`, and the rows
are a rearrangement of the node list. -/
theorem get_nodes_rows (σ : Nat → Nat → Nat → Nat) (hσ : PermFam σ) (kind : Kind) (k : Nat) :
    ∃ rows, getNodes (iter σ kind k) none = .ok rows ∧ rows.Perm (iter σ kind k).nodes ∧
      rows.map (·.idx) = List.range (iter σ kind k).nodes.length := by
  have h := good_iter σ hσ kind k
  exact ⟨_, rfl, sortByIdx_perm _, by rw [h.length_eq]; exact sortByIdx_idx h⟩

/-- `get_nodes(N)` is the prefix of length `N` of `get_nodes()`, or `ValueError` when `N` exceeds the number of nodes
(for every state, hence every history). -/
theorem get_nodes_prefix (s : St) (N : Nat) :
    getNodes s (some N) = if N > s.nodes.length then .error "ValueError" else
      (getNodes s none).map (·.take N) := by
  have hl : (sortByIdx s.nodes).length = s.nodes.length := (sortByIdx_perm s.nodes).length_eq
  simp only [getNodes, hl]
  split <;> rfl

/-- `q_in_upper_sphere(q)`: the first non-zero coordinate is positive (`upperRec` is that reading, recursively). -/
theorem upper_is_first_nonzero_positive (p : Pt) : inUpper p = upperRec p := inUpper_eq_upperRec p

theorem exists_ne_zero_of_co {p : Pt} {i : Nat} (h : co p i ≠ 0) : ∃ x ∈ p, x ≠ 0 := by
  induction p generalizing i with
  | nil => simp [co] at h
  | cons a t ih =>
    cases i with
    | zero => exact ⟨a, by simp, by simpa [co] using h⟩
    | succ n =>
      obtain ⟨x, hx, hne⟩ := ih (i := n) (by simpa [co] using h)
      exact ⟨x, by simp [hx], hne⟩

/-- "the half-hypercube selection contains exactly one of every antipodal pair in index order" — every level,
every family of permutations: the result is the list of upper-half nodes in strictly increasing index order, and of
any node and its antipode (which is a node) exactly one is selected. -/
theorem half_one_of_each (σ : Nat → Nat → Nat → Nat) (hσ : PermFam σ) (k : Nat) :
    ∃ half, getHalf (iter σ .cube4 k) none = .ok half ∧
      half.Pairwise (fun a b => a.idx < b.idx) ∧
      (∀ nd, nd ∈ half ↔ nd ∈ (iter σ .cube4 k).nodes ∧ inUpper nd.pt = true) ∧
      ∀ nd ∈ (iter σ .cube4 k).nodes, ∃ nd' ∈ (iter σ .cube4 k).nodes, nd'.pt = neg nd.pt ∧ (nd ∈ half ↔ nd' ∉ half) := by
  have hk : Kind.cube4 = .cube3 ∨ Kind.cube4 = .cube4 := Or.inr rfl
  have hg := good_iter σ hσ .cube4 k
  have hmem : ∀ nd, nd ∈ (sortByIdx (iter σ .cube4 k).nodes).filter (fun nd => inUpper nd.pt) ↔
      nd ∈ (iter σ .cube4 k).nodes ∧ inUpper nd.pt = true := by
    intro nd
    rw [List.mem_filter, (sortByIdx_perm _).mem_iff]
  refine ⟨_, getHalf_eq hg, ?_, hmem, ?_⟩
  · have h1 : (sortByIdx (iter σ .cube4 k).nodes).Pairwise (fun a b => a.idx < b.idx) := by
      have := sortByIdx_idx hg
      have h2 : ((sortByIdx (iter σ .cube4 k).nodes).map (·.idx)).Pairwise (· < ·) := by
        rw [this]; exact List.pairwise_lt_range
      rwa [List.pairwise_map] at h2
    exact List.Pairwise.sublist List.filter_sublist h1
  · intro nd hnd
    have hp : nd.pt ∈ (iter σ .cube4 k).nodes.map (·.pt) := List.mem_map_of_mem hnd
    obtain ⟨nd', hnd', hpt⟩ := List.mem_map.1 (cube_nodes_neg_closed σ .cube4 hk k nd.pt hp)
    refine ⟨nd', hnd', hpt, ?_⟩
    rw [hmem, hmem, hpt, inUpper_eq_upperRec, inUpper_eq_upperRec]
    have hl := (cube_nodes_eq_lattice σ .cube4 hk k nd.pt).1 hp
    obtain ⟨_, _, i, _, h3⟩ := hl
    have hpos : (0 : Int) < 2 ^ k := by positivity
    have hne : co nd.pt i ≠ 0 := by simp only [coord] at h3; omega
    rw [upperRec_neg nd.pt (exists_ne_zero_of_co hne)]
    simp [hnd, hnd']

/-- "every subdivision history": a read-only observer between two subdivisions is an identity step of the model, so
every theorem above about `iter σ kind k` holds for every history with `k` subdivisions and any observer calls in
between (on the implementation this is what the observer histories of the harness check). -/
theorem observe_id (s : St) : observe s = s := rfl

/-- a history of subdivisions and observer calls: the state depends only on the number of subdivisions. -/
theorem history_state (σ : Nat → Nat → Nat → Nat) (kind : Kind) (ops : List Bool) :
    ops.foldl (fun s isDivide => if isDivide then divide σ kind s else observe s) (create σ kind) =
      iter σ kind (ops.filter id).length := by
  have h : ∀ (ops : List Bool) (k : Nat),
      ops.foldl (fun s isDivide => if isDivide then divide σ kind s else observe s) (iter σ kind k) =
        iter σ kind (k + (ops.filter id).length) := by
    intro ops
    induction ops with
    | nil => intro k; rfl
    | cons b t ih =>
      intro k
      cases b with
      | true =>
        simp only [List.foldl_cons, if_true, List.filter_cons, id, List.length_cons]
        rw [show divide σ kind (iter σ kind k) = iter σ kind (k + 1) from rfl, ih (k + 1)]
        congr 1; omega
      | false =>
        simp only [List.foldl_cons, Bool.false_eq_true, if_false, List.filter_cons, id, observe_id]
        exact ih k
  have h0 := h ops 0
  rw [Nat.zero_add] at h0
  exact h0

/-! ### projection -/

/-- squared Euclidean length of an integer point. -/
def normSq (p : Pt) : Int := (p.map (fun x => x * x)).sum

/-- "Every node's projection is the node scaled to unit length": in any field, dividing the coordinates by a square
root `s` of the squared length gives a vector of squared length 1 (the projection attribute is *defined* as
`p / ‖p‖`; the correspondence check compares it with `p / √(normSq p)` for every node of every level). -/
theorem projection_spec {K : Type} [Field K] (p : Pt) (s : K) (hs : s * s = (normSq p : K)) (h0 : s ≠ 0) :
    ((p.map (fun (x : Int) => (x : K) / s)).map (fun y => y * y)).sum = 1 := by
  have h : ∀ q : Pt, ((q.map (fun (x : Int) => (x : K) / s)).map (fun y => y * y)).sum = (normSq q : K) / (s * s) := by
    intro q
    induction q with
    | nil => simp [normSq]
    | cons a t ih =>
      simp only [List.map_cons, List.sum_cons, ih, normSq]
      push_cast
      field_simp
  rw [h p, hs]
  have : (normSq p : K) ≠ 0 := by rw [← hs]; exact mul_ne_zero h0 h0
  exact div_self this

/-! ### the hypotheses are satisfiable; concrete instances -/

/-- the identity offsets are a family of permutations … -/
example : PermFam (fun _ _ j => j) := by
  intro l n; simp
/-- … and so is the reversal `j ↦ n - 1 - j` (a non-trivial shuffle). -/
example : PermFam (fun _ n j => n - 1 - j) := by
  intro l n
  have : (List.range n).map (fun j => n - 1 - j) = (List.range n).reverse := by
    apply List.ext_getElem (by simp)
    intro i h1 h2
    simp at h1 ⊢
  rw [this]; exact List.reverse_perm _
/-- a face centre of the cube after two divisions is a lattice point (half width 4, spacing 2). -/
example : OnCubeLattice 3 2 [4, 0, -2] := (onCubeLattice_iff 3 2 _).2 (by decide)
/-- counts reported by the implementation: 8, 26 nodes and 24, 96 edges (cube); 16 nodes and 112 edges (hypercube). -/
example : ((List.range 2).map fun k => ((iter (fun _ _ j => j) .cube3 k).nodes.length, (iter (fun _ _ j => j) .cube3 k).edges.length))
    = [(8, 24), (26, 96)] := by decide +kernel
example : ((iter (fun _ _ j => j) .cube4 0).nodes.length, (iter (fun _ _ j => j) .cube4 0).edges.length) = (16, 112) := by
  decide +kernel
/-- `projection_spec` at the vertex `(1,1,1)` over ℚ is vacuous (√3 ∉ ℚ); at `(3,4,0)`: `s = 5`. -/
example : ((([3, 4, 0] : Pt).map (fun (x : Int) => (x : Rat) / 5)).map (fun y => y * y)).sum = 1 :=
  projection_spec [3, 4, 0] 5 (by norm_num [normSq]) (by norm_num)

/-- the class hypotheses hold for the two cube classes. -/
example : Kind.cube3 = .cube3 ∨ Kind.cube3 = .cube4 := Or.inl rfl
example : Kind.cube4 = .cube3 ∨ Kind.cube4 = .cube4 := Or.inr rfl
/-- `hnd : nd ∈ nodes`, `hab : a.level < b.level`: after one division there are nodes of level 0 and of level 1. -/
example : ((iter (fun _ _ j => j) .cube3 1).nodes.any (fun nd => nd.level == 0) &&
    (iter (fun _ _ j => j) .cube3 1).nodes.any (fun nd => nd.level == 1)) = true := by decide +kernel
/-- hypotheses of `cube_seconds_filter_vacuous`: after one division there are edges between two nodes of the newest
level (e.g. an edge midpoint and a face centre). -/
example : (iter (fun _ _ j => j) .cube3 1).edges.any (fun e =>
    (iter (fun _ _ j => j) .cube3 1).nodes.any (fun a => a.pt == e.1 && a.level == 1) &&
    (iter (fun _ _ j => j) .cube3 1).nodes.any (fun b => b.pt == e.2 && b.level == 1)) = true := by decide +kernel
/-- hypotheses of `ico_seconds_filter_vacuous`: the pass before the second division joins midpoints of level 1. -/
example : (icoCompleted (fun _ _ j => j) 1).edges.any (fun e =>
    (iter (fun _ _ j => j) .ico 1).nodes.any (fun a => a.pt == e.1 && a.level == 1) &&
    (iter (fun _ _ j => j) .ico 1).nodes.any (fun b => b.pt == e.2 && b.level == 1)) = true := by decide +kernel
/-- the midpoint of the icosahedron edge from vertex 0 `(-1, φ, 0)` to vertex 1 `(1, φ, 0)` is the lattice point
`(0, 2φ, 0)` of level 1. -/
example : OnIcoLattice 1 [0, 0, 0, 2, 0, 0] :=
  ⟨0, 5, 1, by decide, 1, 0, 1, by omega, by omega, by omega, by norm_num, by decide⟩
/-- 12, 42 nodes and 30, 60 edges (icosahedron, levels 0 and 1). -/
example : ((List.range 2).map fun k => ((iter (fun _ _ j => j) .ico k).nodes.length, (iter (fun _ _ j => j) .ico k).edges.length))
    = [(12, 30), (42, 60)] := by decide +kernel

end Molgri.C18
