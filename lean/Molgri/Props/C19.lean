/-
C19 — every valid grid specification yields all geometry or a deliberate ValueError.

Property theorems about `Molgri.Totality` (abstract interpreter of the getter call graph of
`FullGrid` / `PositionGrid` / the three cell models over sizes).  Quantifiers: every grid name (as the result of
the name scan, which includes every bare number `n_b, n_o ≥ 1` and every `<alg>_<n>`), every radial grid with
`n_t ≥ 1` positive strictly ascending radii, both position modes, all five getters, every outcome of the external
geometry library in the Cartesian mode.
-/
import Molgri.Lemmas.Totality

namespace Molgri.C19
open Molgri.Totality

/-- **getters_total.**  "constructing the full grid and requesting its array, volumes, adjacency, borders and
distances either succeeds with arrays of the correct shape (n or n x n for n = n_t*n_o*n_b) or raises ValueError;
it never fails with an internal error such as AttributeError or IndexError.  In the Cartesian mode [the
specification] may instead be rejected with the geometry library's own error."

For every specification, every getter and every behaviour `ext` of the geometry library — provided only that the
closed cells it reports are not cells of the added outer shell (`hclosed`; points of the outermost shell lie on the
convex hull, so their Voronoi cells are unbounded) — the outcome is ValueError, or (Cartesian mode only, and only
when qhull itself failed: no diagram, or no hull for a cell it reported closed) the library's error, or success
with exactly the shape the property demands. -/
theorem getters_total (s : Spec) (ext : Ext) (g : Getter) (hr : RadiiOk s.radii)
    (hclosed : ∀ a nO, resolveName false s.o = .ok (a, nO) → ∀ i ∈ ext.closed, i < nO * s.radii.length) :
    run current s ext g = .error .valueError
    ∨ (s.cartesian = true ∧ (ext.qhullOk = false ∨ ∃ i ∈ ext.closed, i ∈ ext.hullFails)
        ∧ run current s ext g = .error .qhullError)
    ∨ ∃ ab nB ao nO, resolveName true s.b = .ok (ab, nB) ∧ resolveName false s.o = .ok (ao, nO)
        ∧ 1 ≤ nB ∧ 1 ≤ nO ∧ run current s ext g = .ok (expected g (s.radii.length * nO * nB)) := by
  rcases mkFullGrid_cases s ext hr with h | ⟨ab, nB, ao, nO, hb, ho, h1b, h1o, h⟩
  · left; simp [run, h, bind, Except.bind]
  · right
    rcases h with ⟨hc, hq, h⟩ | ⟨_, fg, hfg, hgood⟩
    · left; exact ⟨hc, Or.inl hq, by simp [run, h, bind, Except.bind]⟩
    · rcases getter_cases hgood hr h1b h1o (fun _ => hclosed ao nO ho) g with hv | ⟨_, hc, hex, hv⟩
      · right; exact ⟨ab, nB, ao, nO, hb, ho, h1b, h1o, by simp [run, hfg, hv, bind, Except.bind]⟩
      · left; exact ⟨hc, Or.inr hex, by simp [run, hfg, hv, bind, Except.bind]⟩

example : RadiiOk [1, 2, (7 : Rat) / 2] ∧
    ∀ a nO, resolveName false (Scan.bare 5) = .ok (a, nO) →
      ∀ i ∈ (⟨true, [0, 3, 14], []⟩ : Ext).closed, i < nO * 3 := by
  refine ⟨⟨by simp, by norm_num [ascFrom]⟩, ?_⟩
  intro a nO h i hi
  simp [resolveName, Scan.bare, pure, Except.pure] at h
  obtain ⟨-, rfl⟩ := h
  simp at hi; omega

/- OPEN (finding F13, see findings/C19.json): the last sentence of the property at full strength,

    theorem getters_total_box (hclosed) (hqhull : qhull builds the diagram whenever 3 ≤ n_o) :
      run … = ValueError ∨ (cartesian ∧ n_o < 3 ∧ run … = QhullError) ∨ run … = ok (expected …)

  is FALSE of the implementation: for direction grids that do not surround the origin (ico_3, randomS_3..7) and
  radii that are close to each other, qhull reports a numerically unbounded cell as closed (one vertex at ~1e14) and
  `ConvexHull` of that cell raises QhullError inside `get_total_volumes` although n_o ≥ 3.  The model contains the
  defect (`Ext.hullFails`, `volLoop`); `hull_failure_witness` below is the negation on the model.  What is proved is
  the statement under the excluding hypothesis `hhull` (no reported-closed cell has a failing hull). -/

/-- **getters_total_box_partial** (the last sentence of the property made exact, under `hhull`).  If qhull builds
the diagram whenever there are at least three directions (validated on every run over the explored box) and the
hull of every cell it reports closed can be computed, the library's own error can only occur in the Cartesian mode
with fewer than three directions. -/
theorem getters_total_box_partial (s : Spec) (ext : Ext) (g : Getter) (hr : RadiiOk s.radii)
    (hclosed : ∀ a nO, resolveName false s.o = .ok (a, nO) → ∀ i ∈ ext.closed, i < nO * s.radii.length)
    (hqhull : ∀ a nO, resolveName false s.o = .ok (a, nO) → 3 ≤ nO → ext.qhullOk = true)
    (hhull : ∀ i ∈ ext.closed, ¬ i ∈ ext.hullFails) :
    run current s ext g = .error .valueError
    ∨ ∃ ab nB ao nO, resolveName true s.b = .ok (ab, nB) ∧ resolveName false s.o = .ok (ao, nO)
        ∧ 1 ≤ nB ∧ 1 ≤ nO
        ∧ ((s.cartesian = true ∧ nO < 3 ∧ run current s ext g = .error .qhullError)
           ∨ run current s ext g = .ok (expected g (s.radii.length * nO * nB))) := by
  rcases mkFullGrid_cases s ext hr with h | ⟨ab, nB, ao, nO, hb, ho, h1b, h1o, h⟩
  · left; simp [run, h, bind, Except.bind]
  · right; refine ⟨ab, nB, ao, nO, hb, ho, h1b, h1o, ?_⟩
    rcases h with ⟨hc, hq, h⟩ | ⟨_, fg, hfg, hgood⟩
    · left; refine ⟨hc, ?_, by simp [run, h, bind, Except.bind]⟩
      by_contra hn
      have := hqhull ao nO ho (by omega)
      rw [hq] at this; exact Bool.noConfusion this
    · right
      have := getter_ok hgood hr h1b h1o (fun _ => hclosed ao nO ho) hhull g
      simp [run, hfg, this, bind, Except.bind]

example : (∀ a nO, resolveName false (Scan.bare 2) = .ok (a, nO) → 3 ≤ nO → (defaultExt 2).qhullOk = true) ∧
    (∀ i ∈ (⟨true, [0, 1, 2], []⟩ : Ext).closed, ¬ i ∈ (⟨true, [0, 1, 2], []⟩ : Ext).hullFails) := by
  refine ⟨?_, by simp⟩
  intro a nO h h3
  simp [resolveName, Scan.bare, pure, Except.pure] at h
  omega

/-- Witness of finding F13 on the model (the negation of the full-strength box statement): three directions,
Cartesian mode, qhull built the diagram but the hull of the closed cell 5 fails — `get_total_volumes` raises the
library's error although `n_o = 3`; the other four getters work. -/
theorem hull_failure_witness :
    [Getter.array, .volumes, .adjacency, .borders, .distances].map
        (run current ⟨.bare 2, .bare 3, [28, 30], true⟩ ⟨true, [5], [5]⟩)
      = [.ok (.mat 12 7), .error .qhullError, .ok (.mat 12 12), .ok (.mat 12 12), .ok (.mat 12 12)] := by
  decide +kernel

/-- **no ValueError for accepted names.**  "For every combination of rotation count n_b>=1, direction count
n_o>=1 and radial grid with n_t>=1 positive radii that the name and radial parsers accept": when both names are
accepted and the rotation algorithm is not `fulldiv` (which accepts only 8, 40, 272, 2080), there is no ValueError
either: in the spherical mode, and in the Cartesian mode whenever qhull succeeded, every getter returns the
demanded shape; otherwise the outcome is the library's error. -/
theorem getters_ok (s : Spec) (ext : Ext) (g : Getter) (hr : RadiiOk s.radii)
    {ab ao : Alg} {nB nO : Nat}
    (hb : resolveName true s.b = .ok (ab, nB)) (ho : resolveName false s.o = .ok (ao, nO))
    (hf : ab ≠ .fulldiv)
    (hclosed : ∀ i ∈ ext.closed, i < nO * s.radii.length)
    (hhull : ∀ i ∈ ext.closed, ¬ i ∈ ext.hullFails) :
    run current s ext g =
      if s.cartesian = true ∧ ext.qhullOk = false then .error .qhullError
      else .ok (expected g (s.radii.length * nO * nB)) := by
  obtain ⟨gb, hgb, hgood4⟩ := create4D_ok_of_ne_fulldiv hb hf
  have h1b : 1 ≤ nB := (create4D_cases hb).1
  have h1o : 1 ≤ nO := (create3D_good ho).1
  rcases mkFullGrid_of_resolved hb hgb hgood4 ho ext hr with ⟨hc, hq, h⟩ | ⟨hc, fg, hfg, hgood⟩
  · rw [if_pos ⟨hc, hq⟩]; simp [run, h, bind, Except.bind]
  · have hn : ¬ (s.cartesian = true ∧ ext.qhullOk = false) := by
      rintro ⟨h1, h2⟩; rcases hc with hc | hc <;> simp_all
    rw [if_neg hn]
    have := getter_ok hgood hr h1b h1o (fun _ => hclosed) hhull g
    simp [run, hfg, this, bind, Except.bind]

/-- **bare numbers** (the box of the property's quantifier and beyond): for *all* `n_b, n_o ≥ 1`, all accepted
radii, both modes, every getter. -/
theorem getters_ok_bare (nB nO : Nat) (radii : List Rat) (cart : Bool) (ext : Ext) (g : Getter)
    (hB : 1 ≤ nB) (hO : 1 ≤ nO) (hr : RadiiOk radii)
    (hclosed : ∀ i ∈ ext.closed, i < nO * radii.length)
    (hhull : ∀ i ∈ ext.closed, ¬ i ∈ ext.hullFails) :
    run current ⟨.bare nB, .bare nO, radii, cart⟩ ext g =
      if cart = true ∧ ext.qhullOk = false then .error .qhullError
      else .ok (expected g (radii.length * nO * nB)) := by
  obtain ⟨ab, hb, hf⟩ := resolveName_bare true nB hB
  obtain ⟨ao, ho, _⟩ := resolveName_bare false nO hO
  exact getters_ok ⟨.bare nB, .bare nO, radii, cart⟩ ext g hr hb ho hf hclosed hhull

example : (1 : Nat) ≤ 2 ∧ (1 : Nat) ≤ 4 ∧ RadiiOk [1, 2] ∧ (∀ i ∈ (defaultExt 4).closed, i < 4 * 2) ∧
    (∀ i ∈ (defaultExt 4).closed, ¬ i ∈ (defaultExt 4).hullFails) := by
  refine ⟨by omega, by omega, by decide, by simp [defaultExt], by simp [defaultExt]⟩

/-- **size threshold** (rotobj.py:97-104): which cell model a size selects — exact for `N ≥ 4` directions,
half-sphere for `N ≥ 4` rotations, estimated below. -/
theorem cell_model_threshold (n : Nat) :
    (∃ g, genGrid 3 n n = .ok g ∧ g.cell.cls = if n ≥ 4 then Cls.rotobj else Cls.mikro) ∧
    (∃ g, genGrid 4 n (2 * n) = .ok g ∧ g.cell.cls = if n ≥ 4 then Cls.half else Cls.mikro) := by
  by_cases h : n ≥ 4 <;>
    simp [genGrid, h, pure, Except.pure]

/-- **every cell model offers every method** the getters call (the repaired state of F4): attribute lookup never
fails on any of the three classes. -/
theorem dispatch_complete (c : Cls) (m : Meth) : resolve current c m ≠ none := by
  cases c <;> cases m <;> decide

/-- **cell methods are total on every grid the factories build**: for every accepted direction-grid name all five
forwarded cell methods return an array over exactly `n_o` cells, with any keyword arguments. -/
theorem cell_methods_total_3d {s : Scan} {a : Alg} {n : Nat} (h : resolveName false s = .ok (a, n)) :
    ∃ g, create3D a n = .ok g ∧ g.getN = n ∧
      ∀ m kw, g.fwd current m kw = .ok (match m with | .volumes => Shape.vec n | _ => Shape.mat n n) := by
  obtain ⟨_, g, hg, hgood⟩ := create3D_good h
  refine ⟨g, hg, hgood.getN, ?_⟩
  intro m kw
  have := hgood.call m kw
  cases m <;> simpa [cellShape] using this

/-- the same for rotation grids (the two methods `FullGrid` calls on them), or the documented `fulldiv` ValueError. -/
theorem cell_methods_total_4d {s : Scan} {a : Alg} {n : Nat} (h : resolveName true s = .ok (a, n)) :
    create4D a n = .error .valueError ∨
    ∃ g, create4D a n = .ok g ∧ g.getN = n ∧
      cellCall current FUEL g.cell .calcNN {} = .ok (.mat n n) ∧
      cellCall current FUEL g.cell .volumes {} = .ok (.vec n) := by
  rcases (create4D_cases h).2 with hc | ⟨g, hg, hgood⟩
  · exact Or.inl hc
  · exact Or.inr ⟨g, hg, hgood.getN, hgood.calcNN, hgood.volumes⟩

/-- **radial helpers are total on accepted radii**: no IndexError, no failed assertion, lengths preserved. -/
theorem radial_total (r : List Rat) (hr : RadiiOk r) :
    (∃ inc, getIncrements r = .ok inc ∧ inc.length = r.length) ∧
    (∃ br, getBetweenRadii r = .ok br ∧ br.length = r.length) :=
  ⟨getIncrements_ok hr, getBetweenRadii_ok hr⟩

example : RadiiOk [(1 : Rat) / 2, 1, 3] := ⟨by simp, by norm_num [ascFrom]⟩

/-! ### witnesses (finite, labelled as such) -/

/-- Witness F4 (pre-repair code, commit 2c4b5eb repaired it): `n_b = 2, n_o = 4, n_t = 2` — the three matrix
getters raise AttributeError while array and volumes work. -/
theorem pinned_f4_witness :
    [Getter.array, .volumes, .adjacency, .borders, .distances].map
        (run pinned ⟨.bare 2, .bare 4, [1, 2], false⟩ (defaultExt 4))
      = [.ok (.mat 16 7), .ok (.vec 16), .error .attributeError, .error .attributeError, .error .attributeError] := by
  decide +kernel

/-- Witness F5 (pre-repair code, commit 4e931e5 repaired it): `n_b = 1, n_o = 4, n_t = 1`, default mode —
distances raise IndexError. -/
theorem pinned_f5_witness :
    run pinned ⟨.bare 1, .bare 4, [1], false⟩ (defaultExt 4) .distances = .error .indexError := by
  decide +kernel

/-- The same two inputs on the current code. -/
theorem current_witnesses :
    [Getter.adjacency, .borders, .distances].map (run current ⟨.bare 2, .bare 4, [1, 2], false⟩ (defaultExt 4))
      = [.ok (.mat 16 16), .ok (.mat 16 16), .ok (.mat 16 16)] ∧
    run current ⟨.bare 1, .bare 4, [1], false⟩ (defaultExt 4) .distances = .ok (.mat 4 4) := by
  decide +kernel

/-- Why `RadiiOk` is a hypothesis: a repeated radius is accepted by the radial parser but trips the deliberate
`assert … np.all(increment_grid[1:] > 0)` of `get_increments` (an AssertionError with a message, not a ValueError). -/
theorem repeated_radius_witness :
    run current ⟨.bare 2, .bare 4, [1, 1], false⟩ (defaultExt 4) .volumes = .error .assertionError := by
  decide +kernel

/-- Why `hclosed` is a hypothesis: a closed cell reported in the added outer shell would be written past the end
of the volume array. -/
theorem closed_outer_cell_witness :
    run current ⟨.bare 2, .bare 4, [1, 2], true⟩ ⟨true, [8], []⟩ .volumes = .error .indexError := by
  decide +kernel

/-- Cartesian mode with two directions: the library's own error, from the constructor, for every getter. -/
theorem qhull_witness (g : Getter) :
    run current ⟨.bare 3, .bare 2, [1, 2], true⟩ (defaultExt 2) g = .error .qhullError := by
  cases g <;> decide +kernel

end Molgri.C19
