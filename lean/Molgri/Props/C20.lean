/-
C20 — persisted grids and energy tables are read back value- and order-exact.

Property theorems about `Molgri.Xvg` (the model of `EnergyReader._get_column_names`, `load_energy`,
`load_single_energy_column`, of the part of pandas' tokenizer that `read_csv(sep=r'\s+', comment='@', skiprows=13,
header=None, names=…)` runs through, and of `to_csv` / `read_csv(index_col=0)`) and about `Molgri.GridFiles` (the
model of `GridWriter.save_*` / `GridReader.load_*`).

A file is a list of lines (`List Char` each).  The statements use the vocabulary of `Molgri/Lemmas/Xvg.lean`:
* `renderAts 0 ats` — the `@` lines of the header; an entry `.legend ws text tail` stands for the line
  `@ s<k> legend<ws>"<text>"<tail>` where `k` counts the legends before it (gmx writes `ws = " "`, `tail = ""`),
  an entry `.other l` for any other `@` line; `legendsOf ats` are the texts in file order; `AtOk` says: `other` lines
  begin with `@` and are not series legends, legend texts and tails contain no double quote, `ws` is a non-empty
  run of blanks;
* `dataLine lead cells` — blanks, then the tokens each followed by its blanks; `DataOk` says: `lead` and the
  separators are blanks (space/tab), every token but the last is followed by at least one blank, a token is a
  non-empty run of characters other than blank and `@` that does not begin with a double quote;
* `RowClosed l` — pandas, skipping the row that starts on line `l`, finds its end on the same line (no quoted
  field is left open; `row_closed_*` below: true of every line without `"` and of gmx' `@ … "text"` lines).
Cells are tokens (the characters handed to pandas' number parser); the numeric conversion and numpy's / scipy's /
pandas' serialisation are external and compared by the correspondence check.
-/
import Molgri.Lemmas.Xvg

namespace Molgri.C20
open Molgri.Xvg

/-! ## energy tables (xvg) -/

/-- *"a time column followed by columns named by the legends in legend order"* — the names the reader passes to
pandas: for every header of `#` lines followed by `@` lines with at most ten series legends `s0, s1, …` in order
(any number of either kind of line), followed by data lines, they are `Time [ps]` and then the legend texts in
order. -/
theorem xvg_column_names (hashes : List Line) (ats : List AtLine)
    (data : List (List Char × List (Field × List Char)))
    (hh : ∀ l ∈ hashes, startsWith ['#'] l = true) (hats : ∀ a ∈ ats, AtOk a)
    (hm : (legendsOf ats).length ≤ 10) (hdata : ∀ d ∈ data, DataOk d.1 d.2) :
    columnNames (hashes ++ renderAts 0 ats ++ data.map (fun d => dataLine d.1 d.2))
      = .ok (timeName :: legendsOf ats) := by
  have hd : ∀ l ∈ data.map (fun d => dataLine d.1 d.2), startsWith ['@'] l = false := by
    intro l hl
    obtain ⟨d, hdm, rfl⟩ := List.mem_map.mp hl
    have h1 := tokLine_dataLine (hdata d hdm)
    cases hs : startsWith ['@'] (dataLine d.1 d.2) with
    | false => rfl
    | true => rw [tokLine_at hs] at h1; cases h1
  rw [columnNames, List.append_assoc, scanLines_hashes hh, scanLines_ats hd ats 0 [timeName] hats (by omega)]
  rfl

/- Note on values: a cell of the model is the token of the data line; `float64(token)` is pandas' number parser
   (external).  The property's xvg clause is about rows, columns and their order, which is what is proved; that each
   cell's value is the number written is compared on every run, exactly (`float(token) = cell`, no tolerance: the
   reader passes `float_precision="round_trip"`, the correctly rounded parser, since fix 2286dfe). -/

/-- **Rows in file order, one per data line, time column then the legends.**
*"An energy table in GROMACS xvg form (a header of '#' lines followed by '@' lines, with at most 13 '#' lines, at
least 13 header lines in total and up to ten series legends) is read into one row per data line in file order, with a
time column followed by columns named by the legends in legend order."*
For every such file (legend texts pairwise different and different from `Time [ps]`, header lines among the first
13 `RowClosed`, every data line carrying one token per column) `load_energy` returns the frame whose labels are
`Time [ps]` followed by the legend texts, without implicit index (`lead = 0`), and whose `k`-th row consists of the
tokens of the `k`-th data line, in order. -/
theorem xvg_table (hashes : List Line) (ats : List AtLine) (data : List (List Char × List (Field × List Char)))
    (hh : ∀ l ∈ hashes, startsWith ['#'] l = true) (hats : ∀ a ∈ ats, AtOk a)
    (h13 : hashes.length ≤ 13) (htotal : 13 ≤ hashes.length + ats.length)
    (hm : (legendsOf ats).length ≤ 10)
    (hclosed : ∀ l ∈ (hashes ++ renderAts 0 ats).take 13, RowClosed l)
    (hnodup : (timeName :: legendsOf ats).Nodup)
    (hdata : ∀ d ∈ data, DataOk d.1 d.2 ∧ d.2.length = (legendsOf ats).length + 1) :
    loadXvg (hashes ++ renderAts 0 ats ++ data.map (fun d => dataLine d.1 d.2))
      = .ok { names := timeName :: legendsOf ats, lead := 0,
              rows := data.map (fun d => d.2.map (fun p => some p.1)) } := by
  have hnames := xvg_column_names hashes ats data hh hats hm (fun d hd => (hdata d hd).1)
  -- the 13 skipped rows are the first 13 header lines
  have hlen : 13 ≤ (hashes ++ renderAts 0 ats).length := by simp [renderAts_length]; omega
  have hskip := skipRows_closed 13 (hashes ++ renderAts 0 ats) (data.map (fun d => dataLine d.1 d.2)) hlen hclosed
  -- what is left of the header are `@` lines
  have hrest : ∀ l ∈ (hashes ++ renderAts 0 ats).drop 13, startsWith ['@'] l = true := by
    intro l hl
    rw [List.drop_append, List.drop_eq_nil_of_le h13, List.nil_append] at hl
    exact renderAts_at hats 0 l (List.mem_of_mem_drop hl)
  have hrows : tokRows (skipRows 13 (hashes ++ renderAts 0 ats ++ data.map (fun d => dataLine d.1 d.2)))
      = .ok (data.map (fun d => d.2.map (·.1))) := by
    rw [hskip, tokRows_at_prefix hrest, tokRows_data (fun d hd => (hdata d hd).1)]
  have hw : ∀ r ∈ data.map (fun d => d.2.map (·.1)), r.length = (timeName :: legendsOf ats).length := by
    intro r hr
    obtain ⟨d, hd, rfl⟩ := List.mem_map.mp hr
    simp [(hdata d hd).2]
  rw [loadXvg, hnames]
  simp only []
  rw [readTable_full hnodup hrows hw]
  simp [List.map_map, Function.comp_def]

/-- **A single named column, same row order.**  *"a single named column is returned in that same row order"*:
for a frame with pairwise different labels whose rows all have one cell per label, `table[name]` for the `k`-th label
is the list of the `k`-th cells (after the implicit index columns, if any) of the rows, in row order. -/
theorem single_column (t : Table) (k : Nat) (hk : k < t.names.length) (hn : t.names.Nodup) :
    column t t.names[k] = .ok (t.rows.map (fun r => r.getD (t.lead + k) none)) := by
  simp [column, indexOf_getElem hn hk, pure, Except.pure]

/-- … and a label that is not a column raises `KeyError`. -/
theorem single_column_missing (t : Table) (name : Field) (h : name ∉ t.names) : column t name = .error "KeyError" := by
  simp [column, indexOf_none h, throw, throwThe, MonadExceptOf.throw]

/-- The two together, on the files of `xvg_table`: the column named by the `j`-th legend (`j = 0`: the time column)
holds, for every data line in file order, the `j`-th token of that line. -/
theorem xvg_single_column (hashes : List Line) (ats : List AtLine)
    (data : List (List Char × List (Field × List Char)))
    (hh : ∀ l ∈ hashes, startsWith ['#'] l = true) (hats : ∀ a ∈ ats, AtOk a)
    (h13 : hashes.length ≤ 13) (htotal : 13 ≤ hashes.length + ats.length)
    (hm : (legendsOf ats).length ≤ 10)
    (hclosed : ∀ l ∈ (hashes ++ renderAts 0 ats).take 13, RowClosed l)
    (hnodup : (timeName :: legendsOf ats).Nodup)
    (hdata : ∀ d ∈ data, DataOk d.1 d.2 ∧ d.2.length = (legendsOf ats).length + 1)
    (j : Nat) (hj : j < (timeName :: legendsOf ats).length) :
    (loadXvg (hashes ++ renderAts 0 ats ++ data.map (fun d => dataLine d.1 d.2))).bind
        (fun t => column t (timeName :: legendsOf ats)[j])
      = .ok (data.map (fun d => ((d.2.map (fun p => some p.1)).getD j none))) := by
  rw [xvg_table hashes ats data hh hats h13 htotal hm hclosed hnodup hdata]
  simp only [Except.bind]
  have := single_column ⟨timeName :: legendsOf ats, 0, data.map (fun d => d.2.map (fun p => some p.1))⟩ j hj hnodup
  simp only [Nat.zero_add] at this
  rw [this]
  simp [List.map_map, Function.comp_def]

/-! ### which header lines are `RowClosed` -/

/-- a header line without a double quote ends the skipped row -/
theorem row_closed_of_no_quote (l : Line) (h : '"' ∉ l) : RowClosed l := skipEnd_noQuote h

/-- so does `pre␣"text"tail` (gmx: `@    title "GROMACS Energies"`), `pre` non-empty and quote-free, one blank before
the opening quote, no further quote -/
theorem row_closed_of_quoted_word (pre t tail : List Char) (b : Char) (hne : pre ≠ []) (hp : '"' ∉ pre)
    (hb : isBlank b = true) (ht : '"' ∉ t) (hl : '"' ∉ tail) :
    RowClosed (pre ++ b :: '"' :: (t ++ '"' :: tail)) := skipEnd_quoted hne hp hb ht hl

/-- and every series-legend line of the form required by `AtOk` -/
theorem row_closed_legend (k : Nat) (hk : k < 10) (ws t tl : List Char) (h : AtOk (.legend ws t tl)) :
    RowClosed (legendLine k ws t tl) := rowClosed_legendLine hk h

example : RowClosed "@    title \"GROMACS Energies\"".toList :=
  row_closed_of_quoted_word "@   ".toList "GROMACS Energies".toList [] ' ' (by decide) (by decide) (by decide) (by decide)
    (by decide)

example : RowClosed "@ s3 legend \"Coulomb (SR)\"".toList :=
  row_closed_legend 3 (by decide) [' '] "Coulomb (SR)".toList [] (by decide)

example : RowClosed "#   gmx energy -f full_energy.edr -o full_energy.xvg".toList :=
  row_closed_of_no_quote _ (by decide)

/-! ### non-vacuity: a file as `gmx energy` writes it (13 `#` lines, 10 + 3 `@` lines, three data lines) -/

def exHashes : List Line := [
  "# This file was created Mon Sep  2 14:11:53 2024".toList, "# Created by:".toList,
  "#                      :-) GROMACS - gmx energy, 2022 (-:".toList, "# ".toList,
  "# Executable:   /usr/local/gromacs/bin/gmx".toList, "# Data prefix:  /usr/local/gromacs".toList,
  "# Working dir:  /home/user/run".toList, "# Command line:".toList,
  "#   gmx energy -f full_energy.edr -o full_energy.xvg".toList, "# gmx energy is part of G R O M A C S:".toList,
  "#".toList, "# Good ROcking Metal Altar for Chronical Sinners".toList, "#".toList]

def exAts : List AtLine := [
  .other "@    title \"GROMACS Energies\"".toList, .other "@    xaxis  label \"Time (ps)\"".toList,
  .other "@    yaxis  label \"(kJ/mol)\"".toList, .other "@TYPE xy".toList,
  .other "@ view 0.15, 0.15, 0.75, 0.85".toList, .other "@ legend on".toList, .other "@ legend box on".toList,
  .other "@ legend loctype view".toList, .other "@ legend 0.78, 0.8".toList, .other "@ legend length 2".toList,
  .legend [' '] "LJ (SR)".toList [], .legend [' '] "Coulomb (SR)".toList [], .legend [' '] "Potential".toList []]

def exData : List (List Char × List (Field × List Char)) := [
  ("    ".toList, [("0.000000".toList, "  ".toList), ("-1.23456".toList, "  ".toList), ("0.5".toList, "  ".toList),
    ("-0.73456".toList, [])]),
  ("    ".toList, [("1.000000".toList, "  ".toList), ("2.5e-05".toList, "  ".toList), ("-4".toList, "  ".toList),
    ("-3.999975".toList, [])]),
  ("    ".toList, [("2.000000".toList, "\t".toList), ("7".toList, " ".toList), ("8".toList, " \t ".toList),
    ("15".toList, " ".toList)])]

example : renderAts 0 exAts =
    ["@    title \"GROMACS Energies\"".toList, "@    xaxis  label \"Time (ps)\"".toList,
     "@    yaxis  label \"(kJ/mol)\"".toList, "@TYPE xy".toList, "@ view 0.15, 0.15, 0.75, 0.85".toList,
     "@ legend on".toList, "@ legend box on".toList, "@ legend loctype view".toList, "@ legend 0.78, 0.8".toList,
     "@ legend length 2".toList, "@ s0 legend \"LJ (SR)\"".toList, "@ s1 legend \"Coulomb (SR)\"".toList,
     "@ s2 legend \"Potential\"".toList] := by decide +kernel

example : exData.map (fun d => dataLine d.1 d.2) =
    ["    0.000000  -1.23456  0.5  -0.73456".toList, "    1.000000  2.5e-05  -4  -3.999975".toList,
     "    2.000000\t7 8 \t 15 ".toList] := by decide +kernel

/-- the hypotheses of `xvg_table` / `xvg_single_column` hold for this file … -/
example : (∀ l ∈ exHashes, startsWith ['#'] l = true) ∧ (∀ a ∈ exAts, AtOk a) ∧ exHashes.length ≤ 13 ∧
    13 ≤ exHashes.length + exAts.length ∧ (legendsOf exAts).length ≤ 10 ∧
    (∀ l ∈ (exHashes ++ renderAts 0 exAts).take 13, RowClosed l) ∧ (timeName :: legendsOf exAts).Nodup ∧
    (∀ d ∈ exData, DataOk d.1 d.2 ∧ d.2.length = (legendsOf exAts).length + 1) := by
  refine ⟨by decide +kernel, by decide +kernel, by decide +kernel, by decide +kernel, by decide +kernel,
    by decide +kernel, by decide +kernel, ?_⟩
  intro d hd
  simp only [exData, List.mem_cons, List.not_mem_nil, or_false] at hd
  rcases hd with rfl | rfl | rfl <;>
    exact ⟨⟨by decide +kernel, by decide +kernel, by decide +kernel, by decide +kernel, by simp [SepsOk]⟩, by decide +kernel⟩

/-- … and the model indeed returns the three rows, in order, under `Time [ps]`, `LJ (SR)`, `Coulomb (SR)`,
`Potential` -/
example : (loadXvg (exHashes ++ renderAts 0 exAts ++ exData.map (fun d => dataLine d.1 d.2))).toOption
    = some { names := ["Time [ps]".toList, "LJ (SR)".toList, "Coulomb (SR)".toList, "Potential".toList], lead := 0,
             rows := [[some "0.000000".toList, some "-1.23456".toList, some "0.5".toList, some "-0.73456".toList],
                      [some "1.000000".toList, some "2.5e-05".toList, some "-4".toList, some "-3.999975".toList],
                      [some "2.000000".toList, some "7".toList, some "8".toList, some "15".toList]] } := by
  decide +kernel

/-! ### why the bounds of the box are hypotheses: witnesses on the model

In all witnesses the file is `h` lines `# c`, then `@` lines, then the data lines `0 10 20`, `1 11 21`, `2 12 22`;
`toOption` is `none` when the reader raises. -/

def wHash (h : Nat) : List Line := List.replicate h "# c".toList
def wData : List Line := ["0 10 20".toList, "1 11 21".toList, "2 12 22".toList]
def wLegends : List Line := ["@ s0 legend \"A\"".toList, "@ s1 legend \"B\"".toList]
def cell (s : String) : Option Field := some s.toList

/-- 14 `#` lines: the 14th is read as a data row (its two tokens, padded) in front of the three real rows -/
theorem witness_14_hash_lines :
    (loadXvg (wHash 14 ++ wLegends ++ wData)).toOption
      = some { names := [timeName, ['A'], ['B']], lead := 0,
               rows := [[cell "#", cell "c", none], [cell "0", cell "10", cell "20"],
                        [cell "1", cell "11", cell "21"], [cell "2", cell "12", cell "22"]] } := by
  decide +kernel

/-- 12 header lines in total (10 + 2): the first data line is skipped — every row is paired with its successor's place -/
theorem witness_12_header_lines :
    (loadXvg (wHash 10 ++ wLegends ++ wData)).toOption
      = some { names := [timeName, ['A'], ['B']], lead := 0,
               rows := [[cell "1", cell "11", cell "21"], [cell "2", cell "12", cell "22"]] } := by
  decide +kernel

/-- … while with exactly 13 header lines (11 + 2, and 13 + 2) all three rows are there -/
theorem witness_13_header_lines :
    (loadXvg (wHash 11 ++ wLegends ++ wData)).toOption = (loadXvg (wHash 13 ++ wLegends ++ wData)).toOption ∧
    (loadXvg (wHash 13 ++ wLegends ++ wData)).toOption
      = some { names := [timeName, ['A'], ['B']], lead := 0,
               rows := [[cell "0", cell "10", cell "20"], [cell "1", cell "11", cell "21"],
                        [cell "2", cell "12", cell "22"]] } := by
  decide +kernel

/-- an eleventh series (`@ s10 legend`) is not found by the scan for `s0 … s9`: ten legend names for eleven value
columns, pandas takes the time column as index (`lead = 1`) and every value moves one name to the left -/
theorem witness_11_legends :
    (loadXvg (wHash 13 ++ (List.range 11).map (fun i => "@ s".toList ++ natStr i ++ " legend \"L".toList ++ natStr i ++ ['"'])
        ++ ["0 1 2 3 4 5 6 7 8 9 10 11".toList])).toOption
      = some { names := timeName :: (List.range 10).map (fun i => 'L' :: natStr i), lead := 1,
               rows := [(List.range 12).map (fun i => some (natStr i))] } := by
  decide +kernel

/-- two series with the same legend text: pandas refuses the names (`ValueError`) -/
theorem witness_duplicate_legends :
    loadXvg (wHash 13 ++ ["@ s0 legend \"A\"".toList, "@ s1 legend \"A\"".toList] ++ wData) = .error "ValueError" := by
  rfl

/-- a header line among the first 13 that leaves a quote open (`RowClosed` fails) swallows the following lines into
the skipped row: here the legends and the first data line are consumed up to the next quote, which never comes —
no row is left -/
theorem witness_open_quote :
    ¬ RowClosed "@ title \"Energies".toList ∧
    (loadXvg (wHash 12 ++ ["@ title \"Energies".toList] ++ wData)).toOption
      = some { names := [timeName], lead := 0, rows := [] } := by
  decide +kernel

/-- a series-legend line without any double quote makes the name scan raise `IndexError` (`split('"')[-2]` on a
one-element list): the reader does not guess a name -/
theorem unquoted_legend_raises (k : Nat) (hk : k < 10) (rest : List Char) (hr : '"' ∉ rest) (acc : List Field) :
    scanLegend (legendPrefix k ++ rest) (List.range 10) acc = .error "IndexError" := by
  have hq : '"' ∉ legendPrefix k ++ rest := by
    have hd := digitChar_ne_quote ⟨k, hk⟩
    simp only [legendPrefix, List.cons_append, List.nil_append, List.mem_cons, not_or]
    exact ⟨by decide, by decide, by decide, fun e => hd e.symm, by decide, by decide, by decide, by decide, by decide,
      by decide, by decide, hr⟩
  rw [range_ten_split ⟨k, hk⟩, scanLegend_append, scanLegend_none]
  · simp only [scanLegend, startsWith_legendPrefix_self, if_true, splitOn_not_mem hq, penultimate]
    rfl
  · intro i hi
    simp only [List.mem_range] at hi
    exact startsWith_legendPrefix_ne (by omega) hk (by omega) _

example : scanLegend "@ s2 legend Potential".toList (List.range 10) [timeName] = .error "IndexError" :=
  unquoted_legend_raises 2 (by decide) " Potential".toList (by decide) _

/-! ## csv -/

/- OPEN (full statement, not a theorem here): *"csv tables written from such a frame read back identically"*, i.e.
   `read_csv(to_csv(frame)) = frame` including the float64 **values**.  The values pass through pandas' float
   formatting (shortest `repr`) and pandas' `round_trip` float parser (`float_precision="round_trip"`), which are
   external to the model.  (With pandas' default parser, used before fix 2286dfe, the full statement was false:
   finding `C20:csv_value_not_bitwise`, now recorded as fixed, witness `-5.179424967e-17`.)  It is still false for an
   empty label (`C20:csv_empty_legend_renamed`), hence the hypothesis `hnonempty`.
   Proved below (`csv_roundtrip_partial`): the part that is logic — labels, row labels, number, order and exact
   character content of all cells.  Missing: `parse (repr x) = x` for the numeric cells (required bit-identical by
   the oracle for every generated finite double on every run). -/

/-- *"csv tables written from such a frame read back identically"* — on the line model of `to_csv` /
`read_csv(index_col=0)`: for every list of pairwise different non-empty labels (any characters, also commas and
quotes) and all rows with one cell per label (any cell strings), reading the written file gives the same labels,
the row labels `0 … n-1`, and the same cells in the same order. -/
theorem csv_roundtrip_partial (names : List Field) (rows : List (List Field)) (hne : names ≠ [])
    (hnonempty : ∀ n ∈ names, n ≠ []) (hnodup : names.Nodup) (hw : ∀ r ∈ rows, r.length = names.length) :
    csvRead (csvWrite names rows)
      = .ok { names := names, index := (List.range rows.length).map natStr, rows := rows } := by
  have hhead : isBlankLine (csvLine ([] :: names)) = false := by
    cases names with
    | nil => exact absurd rfl hne
    | cons n ns => simp [csvLine, csvField, needsQuote, isBlankLine, isBlank]
  have hfilter : (csvWrite names rows).filter (fun l => !isBlankLine l) = csvWrite names rows := by
    simp [csvWrite, hhead, filter_not_blank_csvRows]
  have hany : names.any (fun n => n.isEmpty) = false := by
    rw [List.any_eq_false]; intro n hn; simpa using hnonempty n hn
  rw [csvRead, hfilter, csvWrite]
  simp only [csvTok_line ([] :: names) (by simp) [], List.nil_append, hany, hasDup_eq_false hnodup, Bool.or_self,
    Bool.false_eq_true, if_false, csvData_rows names.length 0 rows hw]
  simp only [pure, Except.pure, List.map_map, Function.comp_def, Except.ok.injEq, CsvTable.mk.injEq, true_and]
  constructor
  · rw [List.range_eq_range']
    apply List.ext_getElem <;> simp
  · apply List.ext_getElem <;> simp

example : (csvRead (csvWrite ["Time [ps]".toList, "LJ (SR)".toList, "a,b \"c\"".toList]
      [["0.0".toList, "-1.5".toList, "2e-05".toList], ["0.5".toList, "3".toList, "".toList]])).toOption
    = some { names := ["Time [ps]".toList, "LJ (SR)".toList, "a,b \"c\"".toList], index := ["0".toList, "1".toList],
             rows := [["0.0".toList, "-1.5".toList, "2e-05".toList], ["0.5".toList, "3".toList, "".toList]] } := by
  decide +kernel

/-- the reader is chosen by the end of the file name: `…xvg`, else `…csv`, anything else is a `ValueError` -/
theorem load_energy_dispatch (path : List Char) (file : List Line) :
    loadEnergy path file =
      if endsWith sufXvg path then (loadXvg file).map .xvg
      else if endsWith sufCsv path then (csvRead file).map .csv
      else .error "ValueError" := by
  unfold loadEnergy
  split
  · cases loadXvg file <;> rfl
  · split
    · cases csvRead file <;> rfl
    · rfl

/-! ## grid files

`A` is the type of array values, `S` the type of sparse-matrix values (class, format, shape, dtype and the storage
arrays in storage order — everything the property speaks about); the theorems hold for any `A`, `S`, i.e. whatever
the five getters return is what comes back, untouched.  That `np.save/np.load` and `save_npz/load_npz` are the
identity on such values is numpy's / scipy's business and is compared bitwise by the correspondence check. -/

section GridFiles
open Molgri.GridFiles
variable {A S : Type}

/-- **All histories.**  After any sequence of writer calls, a path holds what the *last* call that targeted it
wrote (`target` = the path with `.npy` / `.npz` appended unless already there), and files not targeted are as
before. -/
theorem grid_last_write_wins (g : Grid A S) (fs : FS A S) (ops : List Save) (q : Path) :
    lookup q (run g fs ops) =
      match ops.reverse.find? (fun o => o.target = q) with
      | some o => some (o.blob g)
      | none => lookup q fs := by
  induction ops using List.reverseRecOn with
  | nil => rfl
  | append_singleton ops op ih =>
    rw [run_append, lookup_write, List.reverse_append, List.reverse_singleton, List.singleton_append, List.find?_cons]
    by_cases h : q = op.target
    · simp [h]
    · have h' : ¬ op.target = q := fun e => h e.symm
      simp only [h, if_false, h', decide_false]
      exact ih

/-- files written to pairwise different targets do not disturb each other, in whatever order and however many -/
theorem grid_lookup_written (g : Grid A S) (fs : FS A S) (ops : List Save) (hd : (ops.map Save.target).Nodup)
    (o : Save) (ho : o ∈ ops) : lookup o.target (run g fs ops) = some (o.blob g) := by
  rw [grid_last_write_wins]
  have hfind : ops.reverse.find? (fun x => x.target = o.target) = some o := by
    have hmem : o ∈ ops.reverse := List.mem_reverse.mpr ho
    have hd' : (ops.reverse.map Save.target).Nodup := by
      rw [List.map_reverse]; exact List.nodup_reverse.mpr hd
    clear hd ho
    generalize ops.reverse = l at hmem hd'
    induction l with
    | nil => cases hmem
    | cons x xs ih =>
      rw [List.map_cons, List.nodup_cons] at hd'
      rw [List.find?_cons]
      rcases List.mem_cons.mp hmem with rfl | hx
      · simp
      · have hne : x.target ≠ o.target := fun e => hd'.1 (e ▸ List.mem_map_of_mem hx)
        simp only [hne, decide_false]
        exact ih hx hd'.2
  rw [hfind]

/- OPEN (full statement, not a theorem here): *"The full array, volumes and the three sparse matrices written by the
   grid writer are read back by the grid reader with identical shape, values, sparsity pattern and entry order."*
   The full statement needs `np.load (np.save a) = a` and `load_npz (save_npz m) = m` (same class, format, dtype,
   `data/indices/indptr` resp. `row/col/data` in storage order) for numpy's `.npy` and scipy's `.npz` formats, which are
   external.  Proved below (`grid_files_read_back_partial`): everything the wrappers of `molgri/io.py` add — which getter
   goes into which file under which name, that nothing is converted, sorted or re-typed on the way (the value is
   passed through untouched, for arbitrary value types `A`, `S`), that later writer calls to other files do not
   disturb a file, and which loader reads it.  Missing: the two library identities (compared bitwise on every run
   for real and stub grids by the oracle). -/

/-- **Writer then reader.**  *"The full array, volumes and the three sparse matrices written by the grid writer are
read back by the grid reader with identical shape, values, sparsity pattern and entry order."*  For every history of
writer calls with pairwise different target files: a path that carries the extension of its kind and was given to
`save_full_grid` / `save_volumes` / `save_borders_array` / `save_distances_array` / `save_adjacency_array` yields,
through the corresponding `load_*`, exactly the value of the corresponding getter. -/
theorem grid_files_read_back_partial (g : Grid A S) (fs : FS A S) (ops : List Save) (hd : (ops.map Save.target).Nodup)
    (p : Path) :
    (extNpy.isSuffixOf p = true → Save.fullGrid p ∈ ops → npLoad (run g fs ops) p = .ok (.array g.fullGrid)) ∧
    (extNpy.isSuffixOf p = true → Save.volumes p ∈ ops → npLoad (run g fs ops) p = .ok (.array g.volumes)) ∧
    (extNpz.isSuffixOf p = true → Save.borders p ∈ ops → npzLoad (run g fs ops) p = .ok g.borders) ∧
    (extNpz.isSuffixOf p = true → Save.distances p ∈ ops → npzLoad (run g fs ops) p = .ok g.distances) ∧
    (extNpz.isSuffixOf p = true → Save.adjacency p ∈ ops → npzLoad (run g fs ops) p = .ok g.adjacency) := by
  refine ⟨?_, ?_, ?_, ?_, ?_⟩ <;> intro hp hm <;> have h := grid_lookup_written g fs ops hd _ hm <;>
    simp only [Save.target, withExt, hp, if_true, Save.blob] at h <;>
    simp [npLoad, npzLoad, h, pure, Except.pure]

/-- non-vacuity: the five files of the workflow, written in the order of `generate_pt.py` -/
example : ([Save.fullGrid "full_grid.npy".toList, .volumes "volumes.npy".toList, .borders "borders_array.npz".toList,
    .distances "distances_array.npz".toList, .adjacency "adjacency_array.npz".toList].map Save.target).Nodup ∧
    extNpy.isSuffixOf "full_grid.npy".toList = true ∧ extNpz.isSuffixOf "borders_array.npz".toList = true := by
  decide +kernel

/-- why the extension is a hypothesis: `np.save` appends `.npy` to a path that lacks it, `np.load` does not — the
grid written to `p` is found under `p.npy` and not under `p` -/
theorem grid_extension_witness (g : Grid A S) (p : Path) (hp : extNpy.isSuffixOf p = false) :
    npLoad (run g [] [Save.fullGrid p]) p = .error "other:FileNotFoundError" ∧
    npLoad (run g [] [Save.fullGrid p]) (p ++ extNpy) = .ok (.array g.fullGrid) := by
  have hne : p ≠ p ++ extNpy := by
    intro e
    have := congrArg List.length e
    simp [extNpy] at this
  constructor
  · simp [run, write, Save.target, withExt, hp, npLoad, lookup, hne, throw, throwThe, MonadExceptOf.throw]
  · simp [run, write, Save.target, withExt, hp, npLoad, lookup, Save.blob, pure, Except.pure]

example : extNpy.isSuffixOf "grids/full_grid".toList = false := by decide

/-- a file of the other kind is not silently accepted: the sparse loaders raise `TypeError` on an `.npy` file, the
array loaders hand back the archive object (`NpzFile`), never an array -/
theorem grid_wrong_kind (g : Grid A S) (fs : FS A S) (ops : List Save) (hd : (ops.map Save.target).Nodup) (p : Path) :
    (extNpy.isSuffixOf p = true → Save.fullGrid p ∈ ops → npzLoad (run g fs ops) p = .error "TypeError") ∧
    (extNpz.isSuffixOf p = true → Save.borders p ∈ ops → npLoad (run g fs ops) p = .ok (.npzFile g.borders)) := by
  refine ⟨?_, ?_⟩ <;> intro hp hm <;> have h := grid_lookup_written g fs ops hd _ hm <;>
    simp only [Save.target, withExt, hp, if_true, Save.blob] at h <;>
    simp [npLoad, npzLoad, h, pure, Except.pure, throw, throwThe, MonadExceptOf.throw]

end GridFiles

end Molgri.C20
