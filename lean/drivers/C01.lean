import Molgri.Drv.C01
def main : IO Unit := Molgri.Drv.mainLoop Molgri.Drv.C01.handle
