import Molgri.Drv.C02
def main : IO Unit := Molgri.Drv.mainLoop Molgri.Drv.C02.handle
