import Molgri.Drv.C03
def main : IO Unit := Molgri.Drv.mainLoop Molgri.Drv.C03.handle
