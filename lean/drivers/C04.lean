import Molgri.Drv.C04
def main : IO Unit := Molgri.Drv.mainLoop Molgri.Drv.C04.handle
