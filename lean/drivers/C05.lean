import Molgri.Drv.C05
def main : IO Unit := Molgri.Drv.mainLoop Molgri.Drv.C05.handle
