import Molgri.Drv.C06
def main : IO Unit := Molgri.Drv.mainLoop Molgri.Drv.C06.handle
