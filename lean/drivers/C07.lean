import Molgri.Drv.C07
def main : IO Unit := Molgri.Drv.mainLoop Molgri.Drv.C07.handle
