import Molgri.Drv.C08
def main : IO Unit := Molgri.Drv.mainLoop Molgri.Drv.C08.handle
