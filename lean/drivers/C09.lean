import Molgri.Drv.C09
def main : IO Unit := Molgri.Drv.mainLoop Molgri.Drv.C09.handle
