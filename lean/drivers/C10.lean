import Molgri.Drv.C10
def main : IO Unit := Molgri.Drv.mainLoop Molgri.Drv.C10.handle
