import Molgri.Drv.C11
def main : IO Unit := Molgri.Drv.mainLoop Molgri.Drv.C11.handle
