import Molgri.Drv.C12
def main : IO Unit := Molgri.Drv.mainLoop Molgri.Drv.C12.handle
