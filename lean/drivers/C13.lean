import Molgri.Drv.C13
def main : IO Unit := Molgri.Drv.mainLoop Molgri.Drv.C13.handle
