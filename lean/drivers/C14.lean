import Molgri.Drv.C14
def main : IO Unit := Molgri.Drv.mainLoop Molgri.Drv.C14.handle
