import Molgri.Drv.C15
def main : IO Unit := Molgri.Drv.mainLoop Molgri.Drv.C15.handle
