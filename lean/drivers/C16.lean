import Molgri.Drv.C16
def main : IO Unit := Molgri.Drv.mainLoop Molgri.Drv.C16.handle
