import Molgri.Drv.C17
def main : IO Unit := Molgri.Drv.mainLoop Molgri.Drv.C17.handle
