import Molgri.Drv.C18
def main : IO Unit := Molgri.Drv.mainLoop Molgri.Drv.C18.handle
