import Molgri.Drv.C19
def main : IO Unit := Molgri.Drv.mainLoop Molgri.Drv.C19.handle
