import Molgri.Drv.C20
def main : IO Unit := Molgri.Drv.mainLoop Molgri.Drv.C20.handle
